#!/bin/sh
# tools/seeded_all.sh [seed]: every kept seeded change against its property's
# quick check (scratch copy + VERIF_REPO); one line per change.
SEED=${1:-0}
cd "$(dirname "$(readlink -f "$0")")/.."
for d in seeded/*/; do
  n=$(basename "$d")
  id=${n%%-*}
  out=$(VERIF_SEED=$SEED tools/seeded_run.sh "$d" "$id" --tier quick 2>&1)
  rc=$(echo "$out" | grep -o 'seeded exit code: [0-9]*' | grep -o '[0-9]*$')
  nv=$(echo "$out" | grep -c '^VIOLATION')
  first=$(echo "$out" | grep -m1 'signature:' | cut -c1-140)
  echo "$n rc=$rc violations=$nv $first"
done
