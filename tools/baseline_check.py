#!/usr/bin/env python3
"""Runs the repository's test suite (guard off) and verifies that every test
in BASELINE.json's stable_pass list passes."""
import json, subprocess, sys, xml.etree.ElementTree as ET
out = '/dev/shm/pykmip-baseline.xml'
subprocess.call('cd /repo && /venv/bin/python -m pytest -ra -q -p no:cacheprovider --timeout=900 --continue-on-collection-errors --junitxml=%s > /dev/shm/pykmip-baseline.log 2>&1' % out, shell=True)
base = json.load(open('/root/.vp/BASELINE.json'))
want = set(base['stable_pass'])
got = set()
for tc in ET.parse(out).getroot().iter('testcase'):
    ok = not any(c.tag in ('failure', 'error', 'skipped') for c in tc)
    if ok:
        got.add('%s::%s' % (tc.get('classname'), tc.get('name')))
missing = sorted(want - got)
print('baseline stable_pass=%d passed_now=%d missing=%d' % (len(want), len(got), len(missing)))
for m in missing[:20]:
    print('  NOT PASSING:', m)
sys.exit(1 if missing else 0)
