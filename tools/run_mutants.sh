#!/bin/sh
# tools/run_mutants.sh [pattern]: runs every mutant in mutants/ (and seeded/*/patch.diff)
# against the quick tier of the check named by its file name / meta.json and
# prints one line each: CAUGHT (exit 1), MISSED (exit 0) or ERROR.
cd "$(dirname "$(readlink -f "$0")")/.."
mkdir -p out
for m in mutants/${1:-*}; do
  case "$m" in *.json|*.patch) ;; *) continue;; esac
  id=$(basename "$m" | cut -c1-3 | tr a-z A-Z)
  tools/mutant.sh "$PWD/$m" $id --tier quick > out/mutant_$(basename $m).log 2>&1
  rc=$?
  case $rc in 1) r=CAUGHT;; 0) r=MISSED;; *) r="ERROR($rc)";; esac
  echo "$r $id $(basename $m) $(grep -m1 signature out/mutant_$(basename $m).log | cut -c1-120)"
done
