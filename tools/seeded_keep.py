#!/usr/bin/env python3
"""tools/seeded_keep.py <ID> <round> <verdict> <detail>: files a confirmed
seeded change under /verif/seeded/<ID>-<round>/ (patch.diff, demo.py,
meta.json with what was confirmed and what the checks said)."""
import json, os, shutil, sys
pid, rnd, verdict, detail = sys.argv[1:5]
src = '/tmp/seedout/%s-%s' % (pid, rnd)
dst = os.path.join(os.path.dirname(os.path.dirname(os.path.abspath(__file__))),
                   'seeded', '%s-%s' % (pid, rnd))
os.makedirs(dst, exist_ok=True)
for n in ('patch.diff', 'demo.py'):
    shutil.copy(os.path.join(src, n), os.path.join(dst, n))
m = json.load(open(os.path.join(src, 'meta.json')))
m['origin'] = ('round %s: written by an independent sub-agent that saw only '
               'the property text, a scratch worktree and the one-line '
               'summaries of the earlier seeded changes to avoid' % rnd)
m['confirmed_by_me'] = {
    'patch_applies_to': 'repo HEAD at the time',
    'demo': 'exit 0 on the unmodified copy, non-zero on the modified copy '
            '(tools/seeded_verify.sh)',
    'unit_tests_with_change': 'kmip/tests/unit/services/server run by me '
                              'with the change (same result as without); the '
                              'agent reports the full unit suite 3358 passed '
                              'before and after'}
m['check_result'] = {
    'command': 'tools/seeded_run.sh seeded/%s-%s %s --tier quick '
               '(VERIF_SEED 0 and 5)' % (pid, rnd, pid),
    'verdict': verdict, 'detail': detail}
json.dump(m, open(os.path.join(dst, 'meta.json'), 'w'), indent=1)
print('kept', dst)
