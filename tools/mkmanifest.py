#!/usr/bin/env python3
"""Regenerates MANIFEST.json from the table below (single source of truth)."""
import json, os
HERE = os.path.dirname(os.path.dirname(os.path.abspath(__file__)))

NA = {
 'C01': 'Pure function of (value, KMIP version): no schedule, clock, fault, interleaving or history to simulate; BytearrayStream is a fully buffered in-memory buffer. Generating values and calling write/read would be property-based testing dressed as simulation (DESIGN.md section 5/9).',
 'C06': 'Pure functions of (algorithm, parameters, key, message); the only nondeterminism is the entropy source, which the simulator replaces by a seeded stub - exactly what must not be tested for freshness. Differential testing against reference crypto is outside this technique family (DESIGN.md section 5/9).',
}
PENDING = 'check not built yet in this round (design in DESIGN.md section 5); not claimed until it exists'

CHECKS = {
 'C11': dict(level='exploration', ref='5/C11',
   technique='deterministic simulation, self-differential oracle (live engine vs fresh engine on a copy of the database) over seeded histories',
   text='Seeded exploration of (prefix history, probe) pairs on the real engine+session+SQLite under a simulated clock and entropy; the probe response and resulting store must equal those of a fresh engine opened on a copy of the database. Evidence of absence of carry-over on the sampled histories, not proof.',
   note='Trusted: the simulator seams (FakeConnection, SimClock, SimRng, RSA key pool) and the independent TTLV builder/reader; requests delivered whole, one session at a time.'),
 'C09': dict(level='fault_enumeration', ref='5/C09',
   technique='deterministic simulation with fault injection: LD_PRELOAD disk shim kills the forked server before every file-changing libc call of the target request; recovered store compared with fault-free twin runs',
   text='For each seeded scenario every crash point of the target state-changing request is enumerated (k=1..N+1 intercepted pwrite/fdatasync/unlink/... calls, plus death between commit and response, plus a second kill during recovery, plus ENOSPC/EIO at sampled or all k). After each, a fresh engine must open the file, integrity and row-completeness checks must pass, the store must equal the twin state before or after the request (after, if the response had been reported; any item-prefix state for batches), every identity must see the twin view through the API, and the suffix requests must behave as in the twin. Complete over crash instants per scenario; scenarios are sampled.',
   note='Process death only (completed writes survive; no power loss / torn sectors). SQLite itself runs for real and is trusted. Trusted: the shim, the twin-run oracle (needs determinism, which each run re-checks), tmpfs as the disk.'),
 'C10': dict(level='exploration', ref='5/C10',
   technique='deterministic simulation: baton-passing scheduler over real session threads with plan-chosen pre-emptions (sys.settrace line events) and a simulated lock; linearizability checked by sequential re-execution of the real engine',
   text='2-4 real KmipSession.run() threads share one real engine; the plan fixes every context switch (0-5 explicit pre-emptions at traced source lines of engine.py/session.py/policy code plus tie-breaks at blocking points). The recorded request frames are replayed one at a time on a fresh engine+database in the order of lock acquisitions (other admissible orders are searched on mismatch); all responses (byte for byte) and the final store, including the owner column, must match. Deadlock and unanswered requests are flagged. Schedules are sampled, not enumerated.',
   note='Pre-emption granularity is a PyKMIP source line (not inside SQLAlchemy/SQLite); engine.threading is replaced so that the engine\'s own RLock() call yields the simulated lock; SQLite busy timeout 0; constant clock inside a run.'),
 'C03': dict(level='exploration', ref='5/C03',
   technique='deterministic simulation of multi-identity request histories against a reference grant model; per-step sweep of all reads by all identities; restarts injected',
   text='Seeded histories by 2-3 certificate identities (group lists via a simulated SLUGS service) under random user policies and the built-in ones, over every object-addressing operation incl. indirect reach (wrapping key, derivation base, ID placeholder), with engine restarts. Safety direction only: every effect or disclosure must be granted by the reference decision function; denials must be permission errors with the not-found text, carry no payload or object data and leave the store unchanged; Locate lists only permitted objects; owner column == creator at every step.',
   note='Reference decision function written from the property statement; built-in policy tables read from docs/source/server.rst (Set Attribute mapped to Modify Attribute). Over-denial is not reported here. Policy reload racing requests is not yet part of this check.'),
 'C04': dict(level='exploration', ref='5/C04',
   technique='deterministic simulation of operation histories with a lifecycle transition relation as oracle; systematic sweep of short sequences mixed with seeded random histories and restarts',
   text='All sequences up to depth 3 (quick; depth 4 and all seven object types in thorough) over a 9-letter alphabet on one object, plus random histories over several objects with engine restarts. After every step the State of every stored object is compared with the allowed-transition relation (only a successful Activate/Revoke may change it, only forward); a successful Encrypt/Decrypt/Sign/SignatureVerify/MAC/wrapping/DeriveKey requires that the store said Active, right kind and mask bit (Derive Key bit) before the step; Destroy of an Active object must be refused.',
   note='State, mask and type are read from the SQLite tables (ground truth for the guards). MAC: only Active + MAC Generate are demanded (the statement does not define the right kind for MAC).'),
 'C07': dict(level='exploration', ref='5/C07',
   technique='deterministic simulation of create/destroy histories with clean restarts and crash-restarts (LD_PRELOAD shim kills the forked server at a seeded file-system call or between commit and response)',
   text='Histories by 2-3 clients biased to destroy-newest-then-create and destroy-all-then-create, with clean restarts and kill-restarts. Every identifier ever returned or found in the store after recovery must be new; after a successful (or crash-completed) Destroy every identity must get not-found for GetAttributes/Get and every other operation on it (also indirectly as wrapping key / derivation base must fail), Locate must never list it, and other objects must be unchanged by the Destroy.',
   note='Process death only. Identifier allocation is SQLite AUTOINCREMENT, which runs for real.'),
 'C08': dict(level='exploration', ref='5/C08',
   technique='deterministic simulation of batch histories; twin-run oracle: the items reported successful are re-executed alone by a fresh engine on a copy of the pre-state and store + results must match',
   text='Seeded stores and batches of 1-4 items mixing operations that succeed and that fail at different depths, with/without batch item IDs, Stop/Continue/Undo, batch-order flag, ID-placeholder chains. Checked: one result per processed item in order echoing operation and ID; Stop/Continue semantics; a request-level rejection must have had no effect; the final store and the per-item results must equal those of a twin run that executes only the reported-successful items (so failed items leave no trace, even through a later commit of the shared unit of work, do not disturb later items, and nothing takes effect unreported); id-less items address the latest object created in the batch.',
   note='Values of keys generated by the server inside the batch are masked before stores are compared. Disk-error injection inside batches is part of C09, not of this check.'),
 'C14': dict(level='exploration', ref='5/C14',
   technique='deterministic simulation of store-building histories under a scripted clock (ties, backward jumps) followed by Locate requests from every requester; reference Locate model evaluated on the stored rows',
   text='Stores of 0-12 objects of all types, 3 owners, several policies, states, names, groups, application information and sensitive flags are created under a scripted clock that produces same-second ties and backward jumps; every requester (optionally with group lists) then issues Locate with conjunctions of 0-3 filters incl. filters not applicable to some stored types, one or two Initial Date filters, offset/maximum in 0..n+1, under all six versions. The answer must be exactly the permitted matching set, newest first (ties in any but a repeatable order), and pages must be the corresponding slices.',
   note='Reference semantics: an object matches a filter iff it has that attribute with that value; permission = C03 decision function. Requests the decoder refuses (e.g. Certificate Type under 2.0) are skipped and counted. Name filters use name type Uninterpreted Text String only.'),
 'C15': dict(level='exploration', ref='5/C15',
   technique='deterministic simulation of attribute-operation histories (1.x index form and 2.0 current/new/reference form) with restarts; frame-condition oracle on the stored rows of every object plus an exact-change model',
   text='Sequences of Set/Modify/DeleteAttribute over modifiable, protected, unsupported and unknown attribute names, index classes {absent, 0, in range, len, large, negative}, every object type, owner and non-owner, mixed with other operations and restarts. Before/after rows of every object: protected attributes (identifier, type, state, owner, policy name, usage mask, algorithm, length, initial date, value) never change; a successful call must equal apply(before, call) exactly (one instance changed or removed, nothing else anywhere); a failed call changes nothing; GetAttributes must reflect the stored rows.',
   note='Ground truth is the content of the SQLite tables; the exact-change model is written from the property statement and KMIP attribute-operation semantics.'),
 'C05': dict(level='exploration', ref='5/C05',
   technique='deterministic simulation of the full stack (real ProxyKmipClient/KMIPProxy/KMIPProtocol over a simulated chunking transport to the real session, engine and SQLite) with clean restarts and crash-restarts; field-by-field read-back oracle',
   text='Objects of the seven stored types with boundary values (empty/1 byte/1024+ byte values, all mask classes, 1-3 names incl. non-ASCII, application information, key wrapping data with every optional field present/absent, split-key fields, large enum members) are stored through the real client library under a seeded KMIP version, interleaved with another client\'s traffic, clean restarts and kill-restarts during other operations; after every step every object is read back (get, get_attributes, get_attribute_list) by a client of another seeded version and compared field by field on an independent projection, and the attribute set must be exactly supplied + server-assigned.',
   note='The attributes a caller can supply are those ProxyKmipClient.register/create send (usage mask, policy name, names, application information); ProxyKmipClient.create adds Encrypt|Decrypt to the mask by design. KMIPProxy.open() is stubbed (cannot run on Python 3.12).'),
 'C12': dict(level='exploration', ref='5/C12',
   technique='deterministic simulation of byte streams over a fault-injecting transport (planned recv chunking, trickle, timeout, reset, EOF inside a frame) against the real session loop; grammar-aware corruption of valid requests; enumerated split points',
   text='Streams of valid requests and 25 kinds of grammar-aware corruption (plus raw random frames) ending in a valid request are delivered to a real KmipSession frame by frame or as a whole pipelined connection through the real run(), under two chunk plans each. Checked: exactly one well-formed response per framed request (independent TTLV + envelope check); undecodable frames are answered Invalid Message, never reach the engine (spy) and leave the store unchanged; no exception leaves the message loop; the final valid request is answered as on a clean connection; responses do not depend on chunking (every single split point of a frame is enumerated in a sub-batch); Response Too Large exactly when the encoded size exceeds the requested maximum; after timeout/reset run() returns and nothing is executed more often than complete frames arrived.',
   note='Decodability is classified by a separate call of the real decoder. TLS is below the seam. Max response size 0 is not exercised (the error response itself is larger).'),
 'C17': dict(level='fault_enumeration', ref='5/C17',
   technique='deterministic simulation of the authentication path with an enumerated configuration/fault product (certificate shape x EKU checking x plugin lists incl. 404 / unreachable / bad-JSON faults of a simulated SLUGS service x request) and a spy on the engine entry',
   text='The complete product of 13 certificate shapes (real DER: absent; 0/1/2 common names x EKU absent/serverAuth/clientAuth/both) x enable_tls_client_auth x 133 plugin configurations (none, and every list of 1-2 blocks over 11 behaviours incl. 404 at users/groups, unreachable at users/groups, non-JSON body, disabled, unsupported name, missing URL) x 3 requests = 10374 cases is executed in every run against a real KmipSession with a real engine. A spy records whether and with which (user, groups) request processing was entered; it must be exactly when the decision model says identity is established, with exactly that identity; otherwise exactly one Authentication Not Successful response and an unchanged store.',
   note='Exhaustive over the stated finite product (exhaustive: true). A users-endpoint answer of 5xx is executed and recorded but not judged. TLS itself is below the seam (the certificate is handed to the session by the fake connection).'),
 'C18': dict(level='exploration', ref='5/C18',
   technique='deterministic simulation of the policy directory monitor: real files with simulated mtimes, step-wise scans and the real run() loop under the scheduler with a simulated clock; file-system faults (torn write, vanish race, mtime tie, clock jump back, monitor restart); latest-good-load-wins reference model',
   text='All event sequences up to depth 3 (quick) / 4 (thorough) over a 9-letter alphabet, plus random sequences up to 30 events over 3 files x 3 policy names (+ reserved names) with unique definitions in every documented shape and 9 kinds of invalid document at any position, with torn writes, a file vanishing between listdir and getmtime, edits that do not advance the mtime, clock jumps backwards and monitor restarts; plus a live sub-batch running the real run() loop with bounded-liveness check (store == model within 2 simulated seconds after the last event). After every scan the store must equal built-ins + latest good load per name; built-ins never change; invalid files only raise ValueError and change nothing; scan_policies never raises (except the injected vanish race, after which the next scan must converge).',
   note='Manager().dict() is replaced by a plain dict with list-returning keys()/items(). For a name two files (re)load in the same scan either winner is accepted. Edits invisible through the mtime may be missed until the mtime advances.'),
 'C19': dict(level='exploration', ref='5/C19',
   technique='deterministic simulation of the client against a scripted peer over a fault-injecting stream (enumerated split points and cut offsets, reset, timeout, trailing bytes); responses built with an independent TTLV encoder',
   text='Every ProxyKmipClient operation (21) under seeded KMIP versions against a scripted responder that sends legal responses built with the independent encoder: success with seeded payload values (all seven object types incl. wrapped and split keys for get) or failure with any result reason and empty/non-ASCII/long messages. The response stream is delivered whole, split (every single split point enumerated for responses <= 256 bytes), cut at EVERY offset (must raise, never return data), reset or timed out, or followed by trailing bytes. Success must return exactly the payload data (independent projection), failure must raise with exactly (status, reason, message), results must not depend on chunking, and every request the client emits must parse with the independent reader and be accepted by the real server decoder.',
   note='Only legal responses are judged (one item echoing the operation, batch count 1). KMIPProxy.open() is stubbed. Which exception a truncated response raises is not prescribed.'),
 'C02': dict(level='exploration', ref='5/C02',
   technique='deterministic simulation with wire monitors: every frame the server hands to sendall and every frame the client library emits, over seeded histories with an error-path and fault mix (corrupted frames, clock jumps and client skew, auth faults, disk errors, size limits), is checked by an independent TTLV reader and the response-envelope rules',
   text='History half of the property: all frames emitted in simulation, on every path (success, every error class, parse failure, authentication failure, header-level rejection, oversize replacement, internal errors provoked by ENOSPC/EIO) must parse with the independent reader (tag/type/length/padding rules, fixed lengths, UTF-8, structure length = sum of children) and follow the envelope: header with the request\'s protocol version (1.0 allowed only when the request could not be decoded), time stamp inside the simulated request interval, batch count == number of items, result status in every item, reason and message exactly when not Success.',
   note='The input-only half (every constructible value of every class x version, byte-identical to an independent encoder) is not a simulation target and is not decided; only classes that travel in the simulated traffic are seen.'),
 'C16': dict(level='exploration', ref='5/C16',
   technique='deterministic simulation sweeping the complete version x operation x object type matrix plus DiscoverVersions sub-lists, Query-then-execute and version-conditional attributes, with spec-table monitors incl. a tag scan of every response frame',
   text='For every supported version (1.0-2.0) and seven unsupported ones, every served operation is issued with a valid request on every stored object type: the response must carry the request version, unsupported versions must be refused without effect, operations newer than the version must be refused without effect, no response frame may contain a tag introduced after (or removed by) the client\'s version, no attribute newer than the version may be accepted in a template or reported, DiscoverVersions must list exactly the supported subset newest first and each listed version must then be accepted, and every operation Query advertises must then be available.',
   note='Monitors use small tables transcribed from the KMIP specifications (operation/attribute/tag introduction), not the repository\'s. The payload-field x version matrix inside the payload classes is seen only for fields that occur in this traffic.'),
 'C20': dict(level='exploration', ref='5/C20',
   technique='deterministic simulation of histories with canary secrets over every failure path incl. injected disk errors (LD_PRELOAD shim), corrupted frames and authentication failures, with the real client library running part of the traffic; retroactive canary scan of all log records >= INFO and of all result messages',
   text='Every secret-bearing value (registered key material, secret data, credentials passwords, plaintext/ciphertext/MAC/signature data, wrapping keys, server-generated and derived keys learned afterwards through Get) is a unique high-entropy canary. A root handler at INFO collects every record of every logger (message + exception text, which for disk errors contains SQLAlchemy statement parameters). No canary may occur in raw, hex (both cases), base64 or escaped-bytes form, no hex of a message encoding, and no canary in any result message.',
   note='Canaries shorter than 8 bytes are not tracked (accidental matches). Logger levels are those the code sets; root level INFO (server default).'),
 'C13': dict(level='exploration', ref='5/C13',
   technique='deterministic simulation sweeping the grid operation x stored object type x lifecycle state x KMIP version x parameter class through the real session and engine, plus seeded random well-typed histories; monitor on General Failure results, internal-error log records and exceptions leaving the message loop',
   text='Each grid cell builds an object of the type in the state through the API and then issues the operation with a parameter variant (valid, optional absent, inapplicable to the type, unknown/unsupported attribute, unsupported algorithm/mode/parameter, out-of-range values) under the version; thorough sweeps all 22 x 7 x 4 x 6 x 6 cells, quick a seeded slice, both add random well-typed histories over random stores. A request the real decoder accepts must never be answered with General Failure, never produce the engine\'s or session\'s internal-error log record, and never make an exception leave the message loop. Violations are keyed by (operation, exception class, source site).',
   note='Fault-free configurations only (under injected disk errors General Failure is the legitimate answer). Requests the decoder refuses are counted and skipped.'),
}
ALL = ['C%02d' % i for i in range(1, 21)]

def main():
    checks = []
    for pid in ALL:
        if pid not in CHECKS:
            continue
        c = CHECKS[pid]
        checks.append({
            'property_id': pid,
            'quick_cmd': './check %s --tier quick' % pid,
            'thorough_cmd': './check %s --tier thorough' % pid,
            'evidence_file': 'evidence/%s.json' % pid,
            'replay_cmd_template': './check %s --replay {path}' % pid,
            'engine': 'sim',
            'level_claimed': {'category': c['level'], 'text': c['text'], 'design_ref': 'DESIGN.md section ' + c['ref']},
            'level_note': c['note'],
            'technique': c['technique'],
        })
    na = []
    for pid in ALL:
        if pid in CHECKS:
            continue
        na.append({'property_id': pid, 'reason': NA.get(pid, PENDING)})
    m = {
        'version': 1,
        'setup_cmd': './setup.sh',
        'hooks': {
            'guard': 'PYKMIP_VERIF',
            'enable': 'no hooks are needed: every seam is reached from outside (constructor injection, module attributes such as engine.time / engine.threading / crypto.engine.os / auth.slugs.requests, LD_PRELOAD shim for SQLite file I/O). The guard name is reserved and unused.',
            'baseline_off_cmd': 'cd /repo && /venv/bin/python -m pytest -ra -q -p no:cacheprovider --timeout=900 --continue-on-collection-errors',
            'source_commits': [],
            'add_only': True,
        },
        'engines': [{'name': 'sim', 'path': 'sim/', 'serves_properties': sorted(CHECKS),
                     'kind_free_text': 'deterministic simulator (seeded plans, simulated clock/entropy/transport/scheduler/disk faults) driving the real PyKMIP engine, session, monitor and client in-process'}],
        'checks': checks,
        'not_applicable': na,
        'notes': 'Exit codes: 0 held (KNOWN-FINDING lines allowed), 1 VIOLATION, 2 HARNESS-ERROR. VERIF_SEED selects the batch; VERIF_N / VERIF_BUDGET_S override plan count / wall budget. Defects repaired by fix: commits are listed in known_findings.json as fixed.',
    }
    with open(os.path.join(HERE, 'MANIFEST.json'), 'w') as f:
        json.dump(m, f, indent=1)
    print('MANIFEST.json: %d checks, %d not claimed' % (len(checks), len(na)))

if __name__ == '__main__':
    main()
