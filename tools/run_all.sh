#!/bin/sh
# tools/run_all.sh [tier]: runs every registered check, prints one line each.
T=${1:-quick}
cd "$(dirname "$(readlink -f "$0")")/.."
mkdir -p out
for id in $(python3 -c "import json;print(' '.join(c['property_id'] for c in json.load(open('MANIFEST.json'))['checks']))"); do
  s=$(date +%s)
  ./check $id --tier $T > out/run_all_$id.log 2>&1
  rc=$?
  e=$(date +%s)
  echo "$id rc=$rc $(($e-$s))s $(grep -c '^VIOLATION' out/run_all_$id.log) violations $(grep -c '^KNOWN-FINDING' out/run_all_$id.log) known $(grep -c 'HARNESS-ERROR' out/run_all_$id.log) harness"
done
