#!/usr/bin/env python3
"""apply_mutant.py <dir> <mutant.json|mutant.patch>: applies a mutant to the
tree under <dir>. JSON form: {"edits": [{"file":..., "old":..., "new":...}]}
where `old` must occur exactly once."""
import json, subprocess, sys, os
root, m = sys.argv[1], sys.argv[2]
if m.endswith('.json'):
    spec = json.load(open(m))
    for e in spec['edits']:
        p = os.path.join(root, e['file'])
        s = open(p).read()
        if s.count(e['old']) != 1:
            sys.exit('mutant %s: pattern occurs %d times in %s' % (m, s.count(e['old']), e['file']))
        open(p, 'w').write(s.replace(e['old'], e['new']))
else:
    subprocess.check_call(['patch', '-p1', '-s', '-d', root, '-i', os.path.abspath(m)])
