#!/bin/bash
# tools/covgap.sh <ID> [file-substring ...]: development aid. Runs a check's
# quick tier with line coverage of /repo/kmip collected in the workers
# (sys.monitoring core, so the threaded world's settrace is undisturbed) and
# prints the lines of the given files (default: the server engine) that no
# plan reached. Evidence goes to scratch, not to /verif/evidence.
ID="$1"; shift
D=/dev/shm/pykmip-cov-$$
mkdir -p "$D"
trap 'rm -rf "$D"' EXIT
V="$(dirname "$(readlink -f "$0")")/.."
COVERAGE_CORE=sysmon VERIF_COV="$D" VERIF_EVIDENCE_DIR="$D/ev" "$V/check" "$ID" --tier "${VERIF_TIER:-quick}" > "$D/log" 2>&1
tail -3 "$D/log"
cd "$D"
/venv/bin/python -m coverage combine --data-file="$D/.coverage" "$D"/cov.* 2>&1 | tail -1
INC=""
for f in "${@:-services/server/engine.py}"; do INC="$INC,${VERIF_REPO:-/repo}/kmip/$f"; done
/venv/bin/python -m coverage report --data-file="$D/.coverage" --include="${INC#,}" -m 2>&1 | cut -c1-4000
if [ -n "$COVGAP_KEEP" ]; then cp "$D/.coverage" "$COVGAP_KEEP"; fi
