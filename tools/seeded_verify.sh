#!/bin/sh
# tools/seeded_verify.sh <dir-with-patch.diff-and-demo> [unit test paths...]
# Confirms a seeded change: patch applies to a clean copy of /repo, the demo
# passes without it and fails with it, the given unit tests pass with it.
S="$1"; shift
D=/dev/shm/pykmip-seed-$$
trap 'rm -rf "$D"' EXIT
mkdir -p "$D/clean" "$D/mod"
git -C /repo archive HEAD | tar -x -C "$D/clean"
git -C /repo archive HEAD | tar -x -C "$D/mod"
( cd "$D/mod" && patch -p1 -s < "$S/patch.diff" ) || { echo "PATCH-DOES-NOT-APPLY"; exit 3; }
DEMO=$(ls "$S"/demo.py "$S"/test_demo.py 2>/dev/null | head -1)
( cd "$D/clean" && PYTHONPATH="$D/clean" timeout 600 /venv/bin/python "$DEMO" > "$D/clean.log" 2>&1 ); rc_clean=$?
( cd "$D/mod" && PYTHONPATH="$D/mod" timeout 600 /venv/bin/python "$DEMO" > "$D/mod.log" 2>&1 ); rc_mod=$?
echo "demo unmodified rc=$rc_clean  modified rc=$rc_mod"
tail -3 "$D/mod.log" | cut -c1-300
if [ $# -gt 0 ]; then
  ( cd "$D/mod" && PYTHONPATH="$D/mod" timeout 1500 /venv/bin/python -m pytest -q -p no:cacheprovider "$@" 2>&1 | tail -1 )
fi
