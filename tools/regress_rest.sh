./setup.sh >/dev/null
for s in 1 2 3; do echo "== quiet seed $s"; VERIF_SEED=$s tools/run_all.sh quick; done
echo "== seeded C12.."
for d in seeded/C1[2-9]* seeded/C20*; do n=$(basename $d); id=${n%%-*}; out=$(VERIF_SEED=0 tools/seeded_run.sh $d $id --tier quick 2>&1 | grep -E "VIOLATION|signature|seeded exit|note:|PATCH"); rc=$(echo "$out" | grep "seeded exit" | awk '{print $4}'); echo "$n rc=$rc violations=$(echo "$out" | grep -c VIOLATION) $(echo "$out" | grep -m1 signature | cut -c1-160) $(echo "$out" | grep -m1 note: | cut -c1-60)"; done
