#!/bin/sh
# tools/seeded_run.sh <seeded-dir> <check args...>: run a check against a
# scratch copy of /repo with the seeded change applied (VERIF_REPO), so that
# /repo itself - which background runs may be using - is never touched.
S="$(readlink -f "$1")"; shift
D=/dev/shm/pykmip-seedrun-$$
mkdir -p "$D"
trap 'rm -rf "$D"' EXIT
git -C /repo archive HEAD | tar -x -C "$D"
if ! ( cd "$D" && patch -p1 -s --dry-run < "$S/patch.diff" >/dev/null 2>&1 ); then
  # /repo has moved on since the change was written (later fix: commits touch
  # the same lines): fall back to the commit the seeded rounds were made
  # against, so that the change itself is what the check sees
  BASE="${SEEDED_BASE:-e4745f7}"
  rm -rf "$D"; mkdir -p "$D"
  git -C /repo archive "$BASE" | tar -x -C "$D"
  echo "note: patch does not apply to /repo HEAD; applied to $BASE"
fi
( cd "$D" && patch -p1 -s < "$S/patch.diff" ) || { echo "PATCH-DOES-NOT-APPLY"; exit 3; }
VERIF_EVIDENCE_DIR="$D/evidence" VERIF_REPO="$D" "$(dirname "$(readlink -f "$0")")/../check" "$@"
rc=$?
echo "seeded exit code: $rc"
exit $rc
