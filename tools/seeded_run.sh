#!/bin/sh
# tools/seeded_run.sh <seeded-dir> <check args...>: run a check against a
# scratch copy of /repo with the seeded change applied (VERIF_REPO), so that
# /repo itself - which background runs may be using - is never touched.
S="$(readlink -f "$1")"; shift
D=/dev/shm/pykmip-seedrun-$$
mkdir -p "$D"
trap 'rm -rf "$D"' EXIT
git -C /repo archive HEAD | tar -x -C "$D"
( cd "$D" && patch -p1 -s < "$S/patch.diff" ) || { echo "PATCH-DOES-NOT-APPLY"; exit 3; }
VERIF_EVIDENCE_DIR="$D/evidence" VERIF_REPO="$D" "$(dirname "$(readlink -f "$0")")/../check" "$@"
rc=$?
echo "seeded exit code: $rc"
exit $rc
