#!/usr/bin/env python3
"""tools/seed_round.py <round> <ID> [<ID> ...]

Prepares one independent seeded-change task per property: a scratch git
worktree of /repo under /tmp/seedwt/<ID>-<round>, an output directory
/tmp/seedout/<ID>-<round>, and the prompt text (property statement only, no
/verif content) in /tmp/seedout/<ID>-<round>/PROMPT.txt. The "someone else
already produced" line is filled from the summaries of earlier rounds so that
a new mechanism is chosen.
"""
import json
import os
import subprocess
import sys

V = os.path.dirname(os.path.dirname(os.path.abspath(__file__)))


def main():
    rnd = sys.argv[1]
    ids = sys.argv[2:]
    props = {}
    for l in open(os.path.join(V, 'properties.jsonl')):
        p = json.loads(l)
        props[p['id']] = p
    tmpl = open(os.path.join(V, 'tools', 'seed_prompt.tmpl')).read()
    for pid in ids:
        p = props[pid]
        wt = '/tmp/seedwt/%s-%s' % (pid, rnd)
        out = '/tmp/seedout/%s-%s' % (pid, rnd)
        os.makedirs(out, exist_ok=True)
        os.makedirs('/tmp/seedwt', exist_ok=True)
        if not os.path.exists(wt):
            subprocess.check_call(['git', '-C', '/repo', 'worktree', 'add',
                                   '--detach', '-q', wt, 'HEAD'])
        prev = []
        for d in sorted(os.listdir(os.path.join(V, 'seeded'))):
            if d == pid or d.startswith(pid + '-'):
                m = json.load(open(os.path.join(V, 'seeded', d, 'meta.json')))
                s = m.get('summary', '')
                prev.append('(%s) %s' % (', '.join(m.get('files_changed', [])),
                                         s[:420]))
        text = 'TITLE: %s\n\n%s\n\nQUANTIFIED OVER: %s' % (
            p['title'], p['statement'], p['quantifier']['text'])
        t = tmpl.replace('@@PROPERTY@@', text).replace('@@WT@@', wt) \
            .replace('@@OUT@@', out).replace('@@ID@@', pid) \
            .replace('@@PREVIOUS@@', ' || '.join(prev) or 'none')
        if len(prev) > 1:
            t = t.replace('Someone else already produced a change',
                          'Other people already produced %d changes'
                          % len(prev))
        with open(os.path.join(out, 'PROMPT.txt'), 'w') as f:
            f.write(t)
        print(pid, wt, out)


if __name__ == '__main__':
    main()
