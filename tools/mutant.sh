#!/bin/sh
# tools/mutant.sh <patch-file> <check args...>: run a check against a scratch
# copy of /repo with the patch applied; the copy is removed afterwards.
set -e
P="$1"; shift
D=/dev/shm/pykmip-mut-$$
mkdir -p "$D"
trap 'rm -rf "$D"' EXIT
cp -r /repo/kmip "$D/kmip"
python3 "$(dirname "$(readlink -f "$0")")/apply_mutant.py" "$D" "$P"
find "$D" -name '__pycache__' -prune -exec rm -rf {} + 2>/dev/null || true
set +e
VERIF_EVIDENCE_DIR="$D/evidence" VERIF_REPO="$D" "$(dirname "$(readlink -f "$0")")/../check" "$@"
rc=$?
echo "mutant exit code: $rc"
exit $rc
