#!/bin/sh
# Offline setup: verify the interpreter and imports, build the crash shim.
set -e
cd "$(dirname "$(readlink -f "$0")")"
mkdir -p build out/replay evidence
/venv/bin/python - <<'PY'
import sys
sys.path.insert(0, '/repo')
import kmip, sqlalchemy, cryptography, os
assert os.path.realpath(os.path.dirname(os.path.dirname(kmip.__file__))) == os.path.realpath('/repo'), kmip.__file__
print('kmip from', kmip.__file__, 'sqlalchemy', sqlalchemy.__version__, 'cryptography', cryptography.__version__)
PY
if [ -f sim/shim/crashshim.c ]; then
  gcc -O2 -shared -fPIC -o build/crashshim.so sim/shim/crashshim.c -ldl
  echo built build/crashshim.so
fi
echo setup ok
