"""
Simulated transport. FakeConnection is what a KmipSession gets instead of a
TLS socket; ClientSocket is what KMIPProtocol/KMIPProxy get instead of one.
Both deliver bytes in exactly the chunk sizes the plan dictates and inject
the stream faults the plan lists. No real socket, no real time.
"""
import datetime
import socket as _socket

from sim import kernel

_CERTS = {}


def make_certificate(common_names=('alice',), eku=('client',), extras=None):
    """Real DER certificate. eku: None = extension absent; tuple of
    'client'/'server' otherwise. extras: names that are NOT common names -
    {'san_dns': [...], 'san_email': [...], 'attrs': [(NameOID name,
    value), ...]} (subject alternative names, other subject attributes)."""
    extras = extras or {}
    key = (tuple(common_names), None if eku is None else tuple(eku),
           repr(sorted(extras.items())))
    if key in _CERTS:
        return _CERTS[key]
    from cryptography import x509
    from cryptography.hazmat.primitives import hashes, serialization
    from cryptography.x509.oid import NameOID, ExtendedKeyUsageOID
    priv = kernel.pool_private_key(1024, 0)
    attrs = [x509.NameAttribute(NameOID.ORGANIZATION_NAME, u'sim')]
    for oid_name, val in extras.get('attrs', []):
        attrs.append(x509.NameAttribute(getattr(NameOID, oid_name), val))
    for cn in common_names:
        attrs.append(x509.NameAttribute(NameOID.COMMON_NAME, cn))
    name = x509.Name(attrs)
    b = x509.CertificateBuilder().subject_name(name).issuer_name(name)
    import hashlib
    serial = 1000 + int.from_bytes(hashlib.sha256(
        repr(key).encode()).digest()[:4], 'big')
    b = b.public_key(priv.public_key()).serial_number(serial)
    b = b.not_valid_before(datetime.datetime(2020, 1, 1))
    b = b.not_valid_after(datetime.datetime(2040, 1, 1))
    if eku is not None:
        oids = []
        for e in eku:
            oids.append({'client': ExtendedKeyUsageOID.CLIENT_AUTH,
                         'server': ExtendedKeyUsageOID.SERVER_AUTH,
                         'any': ExtendedKeyUsageOID.ANY_EXTENDED_KEY_USAGE,
                         'email': ExtendedKeyUsageOID.EMAIL_PROTECTION,
                         'codesign': ExtendedKeyUsageOID.CODE_SIGNING}[e])
        b = b.add_extension(x509.ExtendedKeyUsage(oids), critical=False)
    san = [x509.DNSName(v) for v in extras.get('san_dns', [])] + \
        [x509.RFC822Name(v) for v in extras.get('san_email', [])]
    if san:
        b = b.add_extension(x509.SubjectAlternativeName(san), critical=False)
    cert = b.sign(priv, hashes.SHA256())
    der = cert.public_bytes(serialization.Encoding.DER)
    _CERTS[key] = der
    return der


class StreamFault(Exception):
    pass


class FakeConnection(object):
    """Server side of a simulated TLS connection."""

    def __init__(self, cert_der, name='conn'):
        self.name = name
        self.cert_der = cert_der
        self.inbox = bytearray()
        self.eof = False
        self.chunks = []        # planned recv sizes, consumed in order
        self.sent = []          # frames passed to sendall
        self.recv_calls = 0
        self.recv_sizes = []
        self.closed = False
        self.shutdown_called = False
        self.fault_recv = None  # ('timeout'|'reset', after_n_bytes)
        self.fault_send = None  # 'reset'
        self.fault_handshake = False    # the TLS handshake fails
        self.fault_shutdown = None      # errno raised by shutdown()
        self.delivered = 0
        self.on_empty = None    # scheduler hook: called when inbox is empty
        self.on_send = None

    # --- what the session calls ---------------------------------------
    def do_handshake(self):
        if self.fault_handshake:
            import ssl as _ssl
            raise _ssl.SSLError(1, '[SSL] simulated handshake failure')
        return None

    def getpeercert(self, binary_form=False):
        return self.cert_der

    def cipher(self):
        return ('SIM-CIPHER', 'TLSv1.2', 256)

    def shared_ciphers(self):
        return None

    def recv(self, n):
        self.recv_calls += 1
        if self.fault_recv is not None:
            kind, after = self.fault_recv
            if self.delivered >= after:
                self.fault_recv = None
                if kind == 'timeout':
                    raise _socket.timeout('simulated timeout')
                raise ConnectionResetError(104, 'simulated reset')
        while not self.inbox:
            if self.eof or self.on_empty is None:
                return b''
            self.on_empty(self)
        k = n
        if self.chunks:
            k = max(1, min(n, self.chunks.pop(0)))
        if self.fault_recv is not None:
            k = max(1, min(k, self.fault_recv[1] - self.delivered)) \
                if self.fault_recv[1] > self.delivered else k
        out = bytes(self.inbox[:k])
        del self.inbox[:k]
        self.delivered += len(out)
        self.recv_sizes.append(len(out))
        return out

    def sendall(self, data):
        if self.fault_send == 'reset':
            self.fault_send = None
            raise ConnectionResetError(104, 'simulated reset on send')
        self.sent.append(bytes(data))
        if self.on_send is not None:
            self.on_send(self, bytes(data))

    def shutdown(self, how):
        self.shutdown_called = True
        if self.fault_shutdown is not None:
            import os as _os
            raise OSError(self.fault_shutdown,
                          _os.strerror(self.fault_shutdown))

    def close(self):
        self.closed = True

    # --- what the simulator calls -------------------------------------
    def feed(self, data, chunks=None):
        self.inbox += data
        if chunks:
            self.chunks = list(chunks)

    def take_sent(self):
        out, self.sent = self.sent, []
        return out


class ClientSocket(object):
    """Client side: what KMIPProtocol reads from / writes to. `responder`
    is called with each complete request frame and returns response bytes
    (or None)."""

    def __init__(self, responder):
        self.responder = responder
        self.outbuf = bytearray()
        self.inbuf = bytearray()
        self.chunks = []
        self.requests = []
        self.cut_at = None       # deliver only this many response bytes
        self.fault_recv = None   # ('timeout'|'reset', after_n_bytes)
        self.delivered = 0
        self.recv_sizes = []

    def sendall(self, data):
        self.outbuf += data
        while len(self.outbuf) >= 8:
            ln = int.from_bytes(self.outbuf[4:8], 'big')
            if len(self.outbuf) < 8 + ln:
                break
            frame = bytes(self.outbuf[:8 + ln])
            del self.outbuf[:8 + ln]
            self.requests.append(frame)
            resp = self.responder(frame)
            if resp:
                if self.cut_at is not None:
                    resp = resp[:self.cut_at]
                self.inbuf += resp

    send = sendall

    def recv(self, n):
        if self.fault_recv is not None:
            kind, after = self.fault_recv
            if self.delivered >= after:
                self.fault_recv = None
                if kind == 'timeout':
                    raise _socket.timeout('simulated timeout')
                raise ConnectionResetError(104, 'simulated reset')
        if not self.inbuf:
            return b''
        k = n
        if self.chunks:
            k = max(1, min(n, self.chunks.pop(0)))
        if self.fault_recv is not None and self.fault_recv[1] > self.delivered:
            k = max(1, min(k, self.fault_recv[1] - self.delivered))
        out = bytes(self.inbuf[:k])
        del self.inbuf[:k]
        self.delivered += len(out)
        self.recv_sizes.append(len(out))
        return out

    def settimeout(self, t):
        pass

    def shutdown(self, how):
        pass

    def close(self):
        pass
