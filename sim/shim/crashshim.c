/*
 * LD_PRELOAD shim: the simulated disk under SQLite.
 *
 * Counts the libc calls SQLite's unix VFS uses to change the database file
 * and its rollback journal (pwrite/pwrite64/write on matching fds, fsync,
 * fdatasync, ftruncate, unlink, rename) for files whose path contains
 * $VERIF_SHIM_MATCH, and -- once armed through verif_arm(k, mode) -- either
 * kills the process (_exit(137), no atexit handlers, no SQLite close: the
 * journal stays hot exactly as after SIGKILL) immediately BEFORE performing
 * the k-th such call, or makes that call fail with ENOSPC / EIO.
 * Off unless armed; never active outside the verification harness.
 */
#define _GNU_SOURCE
#include <dlfcn.h>
#include <errno.h>
#include <fcntl.h>
#include <stdarg.h>
#include <stdio.h>
#include <stdlib.h>
#include <string.h>
#include <sys/types.h>
#include <unistd.h>

static long g_count = 0;      /* matching calls seen since reset */
static long g_target = 0;     /* fire at this call number (1-based), 0 = never */
static int g_mode = 0;        /* 1 kill, 2 ENOSPC, 3 EIO */
static int g_fired = 0;
static int g_counting = 0;
static char g_match[256] = "";
static int g_sticky = 0;      /* fail every matching call from target on */

void verif_reset(void) { g_count = 0; g_target = 0; g_mode = 0; g_fired = 0; g_sticky = 0; }
void verif_count_on(int on) { g_counting = on; }
void verif_arm(long k, int mode) { g_target = k; g_mode = mode; g_fired = 0; g_counting = 1; }
void verif_sticky(int s) { g_sticky = s; }
long verif_count(void) { return g_count; }
int verif_fired(void) { return g_fired; }
void verif_match(const char *m) { strncpy(g_match, m, sizeof(g_match) - 1); }

static int path_matches(const char *p) {
    if (!g_match[0]) {
        const char *e = getenv("VERIF_SHIM_MATCH");
        if (e) strncpy(g_match, e, sizeof(g_match) - 1);
        else strcpy(g_match, "kmip.db");
    }
    return p && strstr(p, g_match) != NULL;
}

static int fd_matches(int fd) {
    char link[64], buf[512];
    ssize_t n;
    if (!g_counting) return 0;
    snprintf(link, sizeof link, "/proc/self/fd/%d", fd);
    n = readlink(link, buf, sizeof buf - 1);
    if (n <= 0) return 0;
    buf[n] = 0;
    return path_matches(buf);
}

/* returns 0 = proceed, otherwise errno to fail with */
static int gate(void) {
    g_count++;
    if (g_target && (g_count == g_target || (g_sticky && g_fired && g_count > g_target))) {
        g_fired = 1;
        if (g_mode == 1) _exit(137);
        if (g_mode == 2) return ENOSPC;
        if (g_mode == 3) return EIO;
    }
    return 0;
}

#define REAL(name) static __typeof__(name) *real = NULL; if (!real) real = dlsym(RTLD_NEXT, #name)

ssize_t pwrite(int fd, const void *b, size_t n, off_t o) {
    REAL(pwrite);
    if (fd_matches(fd)) { int e = gate(); if (e) { errno = e; return -1; } }
    return real(fd, b, n, o);
}
ssize_t pwrite64(int fd, const void *b, size_t n, off64_t o) {
    REAL(pwrite64);
    if (fd_matches(fd)) { int e = gate(); if (e) { errno = e; return -1; } }
    return real(fd, b, n, o);
}
ssize_t write(int fd, const void *b, size_t n) {
    REAL(write);
    if (fd > 2 && fd_matches(fd)) { int e = gate(); if (e) { errno = e; return -1; } }
    return real(fd, b, n);
}
int fsync(int fd) {
    REAL(fsync);
    if (fd_matches(fd)) { int e = gate(); if (e) { errno = e; return -1; } }
    return real(fd);
}
int fdatasync(int fd) {
    REAL(fdatasync);
    if (fd_matches(fd)) { int e = gate(); if (e) { errno = e; return -1; } }
    return real(fd);
}
int ftruncate(int fd, off_t l) {
    REAL(ftruncate);
    if (fd_matches(fd)) { int e = gate(); if (e) { errno = e; return -1; } }
    return real(fd, l);
}
int ftruncate64(int fd, off64_t l) {
    REAL(ftruncate64);
    if (fd_matches(fd)) { int e = gate(); if (e) { errno = e; return -1; } }
    return real(fd, l);
}
int unlink(const char *p) {
    REAL(unlink);
    if (g_counting && path_matches(p)) { int e = gate(); if (e) { errno = e; return -1; } }
    return real(p);
}
int unlinkat(int d, const char *p, int f) {
    REAL(unlinkat);
    if (g_counting && path_matches(p)) { int e = gate(); if (e) { errno = e; return -1; } }
    return real(d, p, f);
}
int rename(const char *a, const char *b) {
    REAL(rename);
    if (g_counting && (path_matches(a) || path_matches(b))) { int e = gate(); if (e) { errno = e; return -1; } }
    return real(a, b);
}
