"""
Deterministic thread scheduler (baton passing). Every party is a real
thread, but exactly one holds the baton and runs; it hands the baton back at
blocking points (SimRLock acquire on a held lock, sleep) and at pre-emption
points (sys.settrace 'line' events in PyKMIP's own server/client frames).
Which thread runs next is decided by the plan: an explicit list of
pre-emptions (task, its n-th pre-emption point, switch-to) and a list of
tie-breaks used whenever the running task blocks or ends.
"""
import sys
import threading

TRACED_SUFFIXES = (
    'kmip/services/server/engine.py',
    'kmip/services/server/session.py',
    'kmip/services/server/monitor.py',
    'kmip/services/server/policy.py',
    'kmip/services/server/auth/slugs.py',
    'kmip/services/server/auth/utils.py',
    'kmip/core/policy.py',
    'kmip/services/server/crypto/engine.py',
)


class SimAbort(BaseException):
    pass


class Task(object):
    def __init__(self, name, fn, index):
        self.name = name
        self.fn = fn
        self.index = index
        self.ev = threading.Event()
        self.state = 'runnable'      # runnable | blocked | sleeping | done
        self.blocked_on = None
        self.wake_at = None
        self.points = 0
        self.thread = None
        self.error = None
        self.line_hist = {}


class Scheduler(object):
    def __init__(self, preempts=None, tiebreaks=None, clock=None,
                 step_cap=400000, traced=TRACED_SUFFIXES, site_filter=None,
                 release_yields=None):
        self.tasks = []
        self.by_name = {}
        self.current = None
        self.preempts = {}
        for p in preempts or []:
            self.preempts[(p[0], p[1])] = p[2] if len(p) > 2 else None
        self.tiebreaks = list(tiebreaks or [])
        self.tb_used = 0
        self.clock = clock
        self.step_cap = step_cap
        self.steps = 0
        self.traced = traced
        self.done = threading.Event()
        self.aborted = None
        self.switches = []           # (from, to, reason, site)
        self.fired_preempts = 0
        self.contention = 0
        self.events = []
        self.seq = 0
        self.lock_order = []
        self.site_filter = site_filter
        # lock releases (by ordinal) after which the releasing task hands
        # the baton to another runnable task; 'all' = every release
        self.release_yields = release_yields
        self.quantum = 20000
        self.current_run_owner = None
        self.current_run_len = 0
        self.quantum_switches = 0
        self.releases = 0
        self.fired_release_yields = 0

    # ------------------------------------------------------------------
    def spawn(self, name, fn):
        t = Task(name, fn, len(self.tasks))
        self.tasks.append(t)
        self.by_name[name] = t
        th = threading.Thread(target=self._body, args=(t,),
                              name='sim-' + name, daemon=True)
        t.thread = th
        return t

    def _body(self, t):
        t.ev.wait()
        t.ev.clear()
        try:
            if self.aborted:
                raise SimAbort()
            sys.settrace(self._trace_for(t))
            try:
                t.fn()
            finally:
                sys.settrace(None)
        except SimAbort:
            pass
        except BaseException as e:      # pragma: no cover
            import traceback
            t.error = traceback.format_exc()
        t.state = 'done'
        self.event('task-done', task=t.name)
        self._handoff(t, 'done')

    def _trace_for(self, t):
        sched = self
        traced = self.traced

        def local(frame, event, arg):
            if event == 'line':
                sched.point(t, frame)
            return local

        def glob(frame, event, arg):
            fn = frame.f_code.co_filename
            if fn.endswith(traced):
                return local
            return None
        return glob

    # ------------------------------------------------------------------
    def event(self, kind, **kw):
        self.seq += 1
        kw['seq'] = self.seq
        kw['ev'] = kind
        self.events.append(kw)
        return self.seq

    def runnable(self):
        return [t for t in self.tasks if t.state == 'runnable']

    def _pick(self, exclude=None):
        r = [t for t in self.runnable() if t is not exclude]
        if not r:
            # nobody runnable: jump the clock to the next sleeper
            sl = [t for t in self.tasks if t.state == 'sleeping']
            if sl and self.clock is not None:
                nxt = min(sl, key=lambda t: (t.wake_at, t.index))
                self.clock.now = max(self.clock.now, nxt.wake_at)
                for t in sl:
                    if t.wake_at <= self.clock.now:
                        t.state = 'runnable'
                r = [t for t in self.runnable() if t is not exclude]
        if not r:
            return None
        k = 0
        if self.tb_used < len(self.tiebreaks):
            k = self.tiebreaks[self.tb_used] % len(r)
        self.tb_used += 1
        return r[k]

    def _handoff(self, me, reason, to=None, site=None):
        """Give the baton to `to` (or to the policy's pick). If `me` is
        still alive it then waits for its own turn."""
        nxt = to if (to is not None and to.state == 'runnable') else \
            self._pick(exclude=me if me.state != 'runnable' else None)
        if nxt is None:
            if all(t.state == 'done' for t in self.tasks):
                self.current = None
                self.done.set()
                return
            if me.state == 'runnable':
                return          # nobody else: keep going
            # deadlock: everyone left is blocked
            self.abort('deadlock: ' + ', '.join(
                '%s[%s on %s]' % (t.name, t.state, t.blocked_on)
                for t in self.tasks if t.state != 'done'))
            if me.state != 'done':
                raise SimAbort()
            return
        if nxt is me:
            return
        self.current_run_len = 0
        self.switches.append((me.name, nxt.name, reason, site))
        self.current = nxt
        nxt.ev.set()
        if me.state == 'done':
            return
        me.ev.wait()
        me.ev.clear()
        if self.aborted:
            raise SimAbort()

    def abort(self, why):
        if self.aborted is None:
            self.aborted = why
            self.event('abort', why=why)
        for t in self.tasks:
            if t.state != 'done':
                t.ev.set()
        self.done.set()

    # ------------------------------------------------------------------
    def point(self, t, frame):
        """A pre-emption point of task t (a traced source line)."""
        if self.current is not t:
            return            # not holding the baton (e.g. during abort)
        self.steps += 1
        if self.steps > self.step_cap:
            self.abort('step cap')
            raise SimAbort()
        t.points += 1
        # fairness in the limit: a task that has run a whole quantum of
        # traced lines without blocking while others are runnable (a spin
        # wait, a polling loop) is pre-empted, as any real scheduler would;
        # ordinary requests need a fraction of the quantum, so plan-chosen
        # schedules are unaffected
        if self.current_run_owner is not t:
            self.current_run_owner = t
            self.current_run_len = 0
        self.current_run_len += 1
        if self.current_run_len > self.quantum:
            self.current_run_len = 0
            others = [x for x in self.runnable() if x is not t]
            if others and self.quantum_switches < 300:
                self.quantum_switches += 1
                # a quantum burnt by a waiting loop is not progress towards
                # the step budget of the workload
                self.step_cap += self.quantum
                k = self.quantum_switches % len(others)
                self._handoff(t, 'quantum', to=others[k])
                return
        key = (t.name, t.points)
        if key in self.preempts:
            to = self.preempts[key]
            site = '%s:%d' % (frame.f_code.co_filename.rsplit('/', 1)[-1],
                              frame.f_lineno)
            target = self.by_name.get(to) if to else None
            others = [x for x in self.runnable() if x is not t]
            if others:
                self.fired_preempts += 1
                if target is None or target.state != 'runnable' or \
                        target is t:
                    target = others[0]
                self._handoff(t, 'preempt', to=target, site=site)

    def release_point(self, t):
        """Task t has just released a lock completely: a scheduling point
        of its own (the waiters of a real lock get to run here, and code
        that gives the lock up in the middle of a request must be seen
        doing so even when no traced line lies inside the window)."""
        if self.current is not t:
            return
        self.releases += 1
        ry = self.release_yields
        if not ry or (ry != 'all' and self.releases not in ry):
            return
        others = [x for x in self.runnable() if x is not t]
        if not others:
            return
        k = 0
        if self.tb_used < len(self.tiebreaks):
            k = self.tiebreaks[self.tb_used] % len(others)
        self.tb_used += 1
        self.fired_release_yields += 1
        self._handoff(t, 'release', to=others[k])

    def block(self, t, on):
        t.state = 'blocked'
        t.blocked_on = on
        self._handoff(t, 'block')

    def unblock(self, t):
        if t.state == 'blocked':
            t.state = 'runnable'
            t.blocked_on = None

    def sleep(self, dt):
        t = self.current
        if t is None or threading.current_thread() is not t.thread:
            if self.clock is not None:
                self.clock.now += dt
            return
        t.state = 'sleeping'
        t.wake_at = self.clock.now + dt
        self.event('sleep', task=t.name, until=t.wake_at)
        self._handoff(t, 'sleep')

    def me(self):
        th = threading.current_thread()
        t = self.current
        if t is not None and t.thread is th:
            return t
        return None

    # ------------------------------------------------------------------
    def run(self, wall_timeout=120):
        for t in self.tasks:
            t.thread.start()
        first = self._pick()
        if first is None:
            return
        self.current = first
        first.ev.set()
        if not self.done.wait(wall_timeout):
            self.abort('wall timeout')
            raise RuntimeError('scheduler watchdog: no progress within %ds; '
                               'tasks: %s' % (wall_timeout, [
                                   (t.name, t.state, t.blocked_on)
                                   for t in self.tasks]))
        for t in self.tasks:
            t.thread.join(5)

    def schedule_signature(self):
        return [(a, b, r, s) for a, b, r, s in self.switches]


class SimRLock(object):
    """Replaces threading.RLock inside the engine module."""
    sched = None

    def __init__(self):
        self.owner = None
        self.depth = 0
        self.waiters = []

    def acquire(self, blocking=True, timeout=-1):
        s = SimRLock.sched
        me = s.me() if s is not None else None
        if me is None:
            # not a scheduled task (e.g. construction in the main thread)
            self.owner = threading.current_thread()
            self.depth += 1
            return True
        while self.owner is not None and self.owner is not me:
            if not blocking:
                return False
            s.contention += 1
            self.waiters.append(me)
            s.event('lock-wait', task=me.name)
            s.block(me, 'lock')
        self.owner = me
        self.depth += 1
        if self.depth == 1:
            s.lock_order.append(me.name)
            s.event('lock-acquire', task=me.name)
        return True

    def release(self):
        s = SimRLock.sched
        me = s.me() if s is not None else None
        holder = me if me is not None else threading.current_thread()
        if self.depth <= 0 or self.owner is not holder:
            # as threading.RLock does
            raise RuntimeError('cannot release un-acquired lock')
        self.depth -= 1
        if self.depth == 0:
            self.owner = None
            if s is not None:
                s.event('lock-release', task=me.name if me else None)
                for w in self.waiters:
                    s.unblock(w)
            self.waiters = []
            if me is not None:
                s.release_point(me)

    __enter__ = acquire

    def __exit__(self, *a):
        self.release()


class ThreadingModule(object):
    """Stands in for `threading` inside kmip.services.server.engine."""

    def __init__(self):
        self.locks_created = 0

    def RLock(self):
        self.locks_created += 1
        return SimRLock()

    def Lock(self):
        self.locks_created += 1
        return SimRLock()

    def __getattr__(self, name):
        return getattr(threading, name)
