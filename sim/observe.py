"""
Observation of the store through the public API, as every identity:
Locate (no filter), GetAttributes(all) and Get of every candidate
identifier, in one Continue-batch per identity, read with the independent
TTLV reader. Used as the "observable store" by several oracles.
"""
import sqlite3


def store_uids(path):
    con = sqlite3.connect(path, timeout=0.5)
    try:
        try:
            return [str(r[0]) for r in con.execute(
                'select uid from managed_objects order by uid')]
        except sqlite3.OperationalError:
            return []
    finally:
        con.close()


def item_view(it):
    if it['status'] == 0:
        return ['ok', it['payload']]
    return ['err', it['reason_name'], it['message']]


def api(world, uids=None, ver=(1, 4), actors=None, extra_uids=()):
    if uids is None:
        uids = store_uids(world.db)
    uids = list(uids) + [u for u in extra_uids if u not in uids]
    out = {}
    for ai in (range(len(world.actors)) if actors is None else actors):
        items = [{'op': 'Locate', 'attrs': []}]
        for u in uids:
            items.append({'op': 'GetAttributes', 'uid': u})
            items.append({'op': 'Get', 'uid': u})
        resp = world.request({'actor': ai, 'ver': list(ver), 'items': items,
                              'cont': 1}, record=False)
        if resp is None or len(resp.items) != len(items):
            out[str(ai)] = {'broken': None if resp is None else
                            [item_view(i) for i in resp.items],
                            'error': world.last.get('parse_error')}
            continue
        v = {'locate': item_view(resp.items[0])}
        for j, u in enumerate(uids):
            v[u] = {'attrs': item_view(resp.items[1 + 2 * j]),
                    'get': item_view(resp.items[2 + 2 * j])}
        out[str(ai)] = v
    return out
