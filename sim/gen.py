"""
Workload generation over the explicit op language of sim/reqs.py. The PRNG
is used only here. The generator keeps an approximate view of the objects it
has asked for (label, type, guessed state) so that most operations address
plausible targets; it never needs to be exact, the oracles do not rely on
it.
"""
from sim import kernel, net

VERSIONS = [(1, 0), (1, 1), (1, 2), (1, 3), (1, 4), (2, 0)]

ALG = {'DES': 1, '3DES': 2, 'AES': 3, 'RSA': 4, 'DSA': 5, 'HMAC_SHA1': 7,
       'HMAC_SHA256': 9, 'HMAC_SHA512': 0xB, 'BLOWFISH': 0x10,
       'CAMELLIA': 0x11, 'CAST5': 0x12, 'IDEA': 0x13, 'RC4': 0x16}
MASK = {'SIGN': 1, 'VERIFY': 2, 'ENCRYPT': 4, 'DECRYPT': 8, 'WRAP_KEY': 0x10,
        'UNWRAP_KEY': 0x20, 'EXPORT': 0x40, 'MAC_GENERATE': 0x80,
        'MAC_VERIFY': 0x100, 'DERIVE_KEY': 0x200,
        'CONTENT_COMMITMENT': 0x400, 'KEY_AGREEMENT': 0x800,
        'CERTIFICATE_SIGN': 0x1000, 'CRL_SIGN': 0x2000,
        'GENERATE_CRYPTOGRAM': 0x4000, 'VALIDATE_CRYPTOGRAM': 0x8000,
        'TRANSLATE_ENCRYPT': 0x10000, 'TRANSLATE_DECRYPT': 0x20000,
        'TRANSLATE_WRAP': 0x40000, 'TRANSLATE_UNWRAP': 0x80000}
ALL_MASK = 0xFFFFF
OTYPES = ['SymmetricKey', 'PublicKey', 'PrivateKey', 'SplitKey',
          'Certificate', 'SecretData', 'OpaqueData']
SYM_SIZES = {3: [128, 192, 256], 2: [64, 128, 192], 0x10: [128, 256],
             0x11: [128, 256], 0x12: [128], 0x13: [128]}


def A(n, v, i=None, k=None):
    d = {'n': n, 'v': v}
    if i is not None:
        d['i'] = i
    if k is not None:
        d['k'] = k
    return d


_PUB = {}


def rsa_values(idx, size=1024):
    """(public PKCS#1 DER hex, private PKCS#8 DER hex) of pool key idx."""
    key = (size, idx)
    if key not in _PUB:
        from cryptography.hazmat.primitives import serialization
        priv = kernel.pool_private_key(size, idx)
        pb = priv.public_key().public_bytes(
            serialization.Encoding.DER, serialization.PublicFormat.PKCS1)
        pv = priv.private_bytes(serialization.Encoding.DER,
                                serialization.PrivateFormat.PKCS8,
                                serialization.NoEncryption())
        _PUB[key] = (pb.hex(), pv.hex())
    return _PUB[key]


def cert_value():
    return net.make_certificate(('certsubject',), ('client',)).hex()


class Ctx(object):
    def __init__(self, rng, nactors=2, versions=None, policies=None,
                 groups=None):
        self.rng = rng
        self.nactors = nactors
        self.versions = versions or VERSIONS
        self.policies = policies or ['default']
        self.groups = groups or ['g1', 'g2']
        self.objs = []      # {'label','otype','state','mask','owner'}
        self.n = 0
        self.names = 0

    def label(self):
        self.n += 1
        return 'o%d' % self.n

    def rbytes(self, n):
        return bytes(self.rng.getrandbits(8) for _ in range(n)).hex()

    def uname(self):
        self.names += 1
        return 'name-%d' % self.names

    def pick_obj(self, otypes=None, p_bogus=0.05, state=None, mask=0):
        r = self.rng
        c = [o for o in self.objs if otypes is None or o['otype'] in otypes]
        if (state or mask) and r.random() < 0.8:
            # prefer objects the generator believes are usable
            pref = [o for o in c if (state is None or o['state'] == state)
                    and (o['mask'] & mask) == mask]
            if pref:
                c = pref
        if not c or r.random() < p_bogus:
            if self.objs and r.random() < 0.5:
                return r.choice(self.objs)
            return None
        # prefer recent
        if r.random() < 0.5:
            return c[-1]
        return r.choice(c)

    def ref(self, o):
        if o is None:
            return self.rng.choice(['@nosuch', '424242', '0', 'abc'])
        return '@' + o['label']


def gen_mask(ctx, want=0):
    r = ctx.rng
    m = want
    for bit in MASK.values():
        if r.random() < 0.25:
            m |= bit
    x = r.random()
    if x < 0.05:
        m = 0
    elif x < 0.10:
        m = ALL_MASK
    return m


def common_attrs(ctx, ver, otype, with_mask=True, want_mask=0):
    r = ctx.rng
    at = []
    if with_mask:
        at.append(A('Cryptographic Usage Mask', gen_mask(ctx, want_mask)))
    n = r.choice([0, 0, 1, 1, 2, 3])
    ctx.last_names = []
    for i in range(n):
        nm = ctx.uname()
        if r.random() < 0.03:
            nm += u'-é中'
        at.append(A('Name', [nm, r.choice([1, 1, 2])], i))
        ctx.last_names.append(nm)
    if ver < (2, 0) and r.random() < 0.35:
        at.append(A('Operation Policy Name', r.choice(ctx.policies)))
    for i in range(r.choice([0, 0, 0, 1, 2])):
        at.append(A('Object Group', r.choice(ctx.groups + ['grp-x']), i))
    for i in range(r.choice([0, 0, 0, 1, 2])):
        at.append(A('Application Specific Information',
                    ['ns%d' % r.randrange(3), 'data%d' % r.randrange(50)], i))
    if ver >= (1, 4) and r.random() < 0.3:
        at.append(A('Sensitive', r.random() < 0.7))
    r.shuffle(at)
    return at


def note(ctx, label, otype, actor, mask=0, state='PreActive'):
    o = {'label': label, 'otype': otype, 'state': state, 'mask': mask,
         'owner': actor, 'names': list(getattr(ctx, 'last_names', []))}
    ctx.last_names = []
    ctx.objs.append(o)
    return o


def mask_of(attrs):
    for a in attrs:
        if a['n'] == 'Cryptographic Usage Mask':
            return a['v']
    return 0


def gen_create(ctx, ver, actor, want_mask=0):
    r = ctx.rng
    alg = r.choice([3, 3, 3, 2, 0x10, 0x11])
    ln = r.choice(SYM_SIZES[alg])
    if r.random() < 0.04:
        ln = r.choice([0, 7, 100, 512, 56, 112, 168, 40, 448])
    at = [A('Cryptographic Algorithm', alg), A('Cryptographic Length', ln)]
    at += common_attrs(ctx, ver, 'SymmetricKey', want_mask=want_mask)
    if r.random() < 0.04:
        at = [a for a in at if a['n'] != r.choice(
            ['Cryptographic Algorithm', 'Cryptographic Length',
             'Cryptographic Usage Mask'])]
    lab = ctx.label()
    note(ctx, lab, 'SymmetricKey', actor, mask_of(at))
    return {'op': 'Create', 'label': lab, 'otype': 'SymmetricKey',
            'attrs': at}


def gen_keypair(ctx, ver, actor):
    r = ctx.rng
    common = [A('Cryptographic Algorithm', 4),
              A('Cryptographic Length', r.choice([1024, 1024, 2048]))]
    priv = common_attrs(ctx, ver, 'PrivateKey', want_mask=1)
    pub = common_attrs(ctx, ver, 'PublicKey', want_mask=2)
    lab = ctx.label()
    note(ctx, lab, 'PrivateKey', actor, mask_of(priv))
    note(ctx, lab + '.pub', 'PublicKey', actor, mask_of(pub))
    return {'op': 'CreateKeyPair', 'label': lab, 'common': common,
            'private': priv, 'public': pub}


def gen_object(ctx, otype):
    r = ctx.rng
    if otype == 'SymmetricKey' or otype == 'SplitKey':
        alg = r.choice([3, 3, 2, 0x10])
        ln = r.choice(SYM_SIZES[alg])
        o = {'kft': 1, 'value': ctx.rbytes(ln // 8), 'alg': alg, 'len': ln}
        x = r.random()
        if otype == 'SymmetricKey' and x < 0.06:
            # legal but unusual: Transparent Symmetric Key, whose key
            # material is a structure {Key: bytes}
            o['kft'] = 7
            o['km_struct'] = True
        elif x < 0.13:
            # a key registered in wrapped form (byte-string key value +
            # key wrapping data, optional parts present or absent)
            w = {'method': r.choice([1, 1, 2, 3])}
            if r.random() < 0.8:
                w['enc'] = {'uid': ctx.ref(ctx.pick_obj(['SymmetricKey'])),
                            'cp': r.choice([None, {'mode': 0xD},
                                            {'mode': 1, 'padding': 3,
                                             'iv_len': 0}])}
            if r.random() < 0.25:
                w['mac'] = {'uid': '77', 'cp': {'hash': 6}}
                w['sig'] = ctx.rbytes(16)
            if r.random() < 0.4:
                w['iv'] = ctx.rbytes(r.choice([8, 16]))
            if r.random() < 0.6:
                w['encoding'] = r.choice([1, 2])
            o['wrap'] = w
            o['value'] = ctx.rbytes(ln // 8 + 8)
        if otype == 'SplitKey':
            o.update({'parts': r.choice([2, 3, 5]), 'part_id': r.choice(
                [1, 2]), 'threshold': r.choice([1, 2]),
                'method': r.choice([1, 2, 3, 4])})
            if o['method'] == 3 or r.random() < 0.2:
                o['prime'] = r.choice([104729, 2 ** 61 - 1, 7, 2 ** 63 - 25,
                                        2 ** 64 - 59, 2 ** 127 - 1])
        return o
    if otype == 'PublicKey':
        return {'kft': 3, 'value': rsa_values(r.randrange(6))[0], 'alg': 4,
                'len': 1024}
    if otype == 'PrivateKey':
        return {'kft': 4, 'value': rsa_values(r.randrange(6))[1], 'alg': 4,
                'len': 1024}
    if otype == 'Certificate':
        return {'ctype': 1, 'value': cert_value()}
    if otype == 'SecretData':
        return {'sdtype': r.choice([1, 2]), 'kft': 2,
                'value': ctx.rbytes(r.choice([1, 8, 16, 33]))}
    if otype == 'OpaqueData':
        return {'odtype': 0x80000000,
                'value': ctx.rbytes(r.choice([1, 5, 16, 64]))}
    raise ValueError(otype)


def gen_register(ctx, ver, actor, otype=None, want_mask=0):
    r = ctx.rng
    otype = otype or r.choice(OTYPES)
    obj = gen_object(ctx, otype)
    at = common_attrs(ctx, ver, otype, with_mask=(otype != 'OpaqueData'),
                      want_mask=want_mask)
    lab = ctx.label()
    note(ctx, lab, otype, actor, mask_of(at))
    return {'op': 'Register', 'label': lab, 'otype': otype, 'attrs': at,
            'obj': obj}


def gen_derive(ctx, ver, actor, refuse=0.15):
    r = ctx.rng
    base = ctx.pick_obj(['SymmetricKey', 'SecretData'])
    uids = [ctx.ref(base)]
    if r.random() < 0.2:
        uids.append(ctx.ref(ctx.pick_obj(['SecretData'])))
    method = r.choice([1, 2, 3, 3, 5])
    params = {'cp': {'hash': r.choice([4, 6, 8])}}
    if method == 1:
        params.update({'salt': ctx.rbytes(8), 'iter': r.choice([1, 10])})
    if r.random() < 0.7:
        params['data'] = ctx.rbytes(r.choice([4, 16]))
    otype = r.choice(['SymmetricKey', 'SymmetricKey', 'SecretData'])
    length = r.choice([128, 128, 256, 100])
    if r.random() < refuse:
        # a derivation the cryptographic back end refuses after the engine
        # has fetched the base key: the failure path holds key material
        y = r.choice(['iter0', 'iter_neg', 'no_salt', 'old_hash', 'too_long',
                      'no_hash', 'no_data'])
        if y in ('iter0', 'iter_neg', 'no_salt'):
            method = 1
            params = {'cp': {'hash': 6}, 'salt': ctx.rbytes(8),
                      'iter': {'iter0': 0, 'iter_neg': -1}.get(y, 10)}
            if y == 'no_salt':
                params.pop('salt')
        elif y == 'old_hash':
            params['cp'] = {'hash': r.choice([1, 2, 3])}
        elif y == 'too_long':
            method = r.choice([3, 5])
            params = {'cp': {'hash': 4}, 'data': ctx.rbytes(4)}
            length = 8 * 20 * 256
        elif y == 'no_hash':
            params['cp'] = {'mode': 1}
        else:
            params.pop('data', None)
    at = [A('Cryptographic Length', length)]
    if otype == 'SymmetricKey':
        at.append(A('Cryptographic Algorithm', 3))
    at += common_attrs(ctx, ver, otype)
    lab = ctx.label()
    note(ctx, lab, otype, actor, mask_of(at))
    return {'op': 'DeriveKey', 'label': lab, 'otype': otype, 'uids': uids,
            'method': method, 'params': params, 'attrs': at}


def gen_use(ctx, ver, actor):
    r = ctx.rng
    kind = r.choice(['Encrypt', 'Decrypt', 'Sign', 'SignatureVerify', 'MAC'])
    if kind in ('Encrypt', 'Decrypt') and ver >= (1, 2) and \
            r.random() < 0.25:
        # authenticated encryption (GCM): tag / additional data
        o = ctx.pick_obj(['SymmetricKey'], 0.1, state='Active',
                         mask=4 if kind == 'Encrypt' else 8)
        op = {'op': kind, 'uid': ctx.ref(o),
              'cp': {'alg': 3, 'mode': 9,
                     'tag_len': r.choice([16, 16, 12, None])},
              'data': ctx.rbytes(r.choice([0, 16, 33])),
              'iv': ctx.rbytes(r.choice([12, 12, 16, 1]))}
        # additional data and tag are request fields of KMIP 1.4; the
        # mode itself (and so a computed tag) exists from 1.2 on
        if ver >= (1, 4) and r.random() < 0.5:
            op['aad'] = ctx.rbytes(r.choice([1, 20]))
        if ver >= (1, 4) and kind == 'Decrypt' and r.random() < 0.9:
            op['tag'] = ctx.rbytes(r.choice([16, 12, 4]))
        return op
    if kind in ('Encrypt', 'Decrypt'):
        o = ctx.pick_obj(['SymmetricKey'], 0.15, state='Active',
                         mask=4 if kind == 'Encrypt' else 8)
        cp = {'alg': 3, 'mode': r.choice([1, 1, 2, 6]),
              'padding': r.choice([3, 3, 6, None])}
        if r.random() < 0.1:
            cp = None
        op = {'op': kind, 'uid': ctx.ref(o), 'cp': cp,
              'data': ctx.rbytes(r.choice([16, 16, 32, 5]))}
        if cp and cp.get('mode') in (1, 6) and r.random() < 0.8:
            op['iv'] = ctx.rbytes(16)
        return op
    if kind == 'Sign':
        o = ctx.pick_obj(['PrivateKey'], 0.15, state='Active', mask=1)
        return {'op': 'Sign', 'uid': ctx.ref(o),
                'cp': {'alg': 4, 'hash': 6, 'padding': 8},
                'data': ctx.rbytes(12)}
    if kind == 'SignatureVerify':
        o = ctx.pick_obj(['PublicKey'], 0.15, state='Active', mask=2)
        return {'op': 'SignatureVerify', 'uid': ctx.ref(o),
                'cp': {'alg': 4, 'hash': 6, 'padding': 8},
                'data': ctx.rbytes(12), 'sig': ctx.rbytes(128)}
    o = ctx.pick_obj(['SymmetricKey', 'SecretData'], 0.15, state='Active',
                     mask=0x80)
    return {'op': 'MAC', 'uid': ctx.ref(o),
            'cp': {'alg': r.choice([9, 9, 0xB, 3])},
            'data': ctx.rbytes(10)}


def gen_lifecycle(ctx, ver, actor):
    r = ctx.rng
    o = ctx.pick_obj()
    k = r.choice(['Activate', 'Activate', 'Revoke', 'Revoke', 'Destroy'])
    if k == 'Activate':
        if o:
            o['state'] = 'Active'
        return {'op': 'Activate', 'uid': ctx.ref(o)}
    if k == 'Revoke':
        code = r.choice([1, 2, 2, 3, 4, 5, 6, 7])
        return {'op': 'Revoke', 'uid': ctx.ref(o), 'code': code,
                'msg': r.choice([None, 'because'])}
    return {'op': 'Destroy', 'uid': ctx.ref(o)}


def gen_read(ctx, ver, actor, allow_idless=True):
    r = ctx.rng
    o = ctx.pick_obj()
    ref = ctx.ref(o)
    if allow_idless and r.random() < 0.08:
        ref = None
    k = r.choice(['Get', 'Get', 'GetAttributes', 'GetAttributes',
                  'GetAttributeList', 'Locate'])
    if k == 'Get':
        op = {'op': 'Get', 'uid': ref}
        x = r.random()
        if x < 0.1:
            op['kft'] = r.choice([1, 2, 3, 4])
        elif x < 0.25:
            wk = ctx.pick_obj(['SymmetricKey'], 0.1)
            op['wrapspec'] = {'method': 1, 'enc': {
                'uid': ctx.ref(wk), 'cp': {'mode': 0xD}},
                'encoding': r.choice([1, 1, None])}
        return op
    if k == 'GetAttributes':
        names = None
        if r.random() < 0.5:
            names = r.sample(['State', 'Name', 'Object Type',
                              'Cryptographic Usage Mask', 'Initial Date',
                              'Operation Policy Name', 'Sensitive',
                              'Object Group', 'x-custom',
                              'Unique Identifier'], r.choice([1, 2, 3]))
        return {'op': 'GetAttributes', 'uid': ref, 'names': names}
    if k == 'GetAttributeList':
        return {'op': 'GetAttributeList', 'uid': ref}
    return gen_locate(ctx, ver, actor)


def gen_locate(ctx, ver, actor):
    r = ctx.rng
    at = []
    for _ in range(r.choice([0, 0, 1, 1, 2])):
        k = r.choice(['Object Type', 'State', 'Cryptographic Algorithm',
                      'Cryptographic Length', 'Cryptographic Usage Mask',
                      'Object Group', 'Name', 'Operation Policy Name'])
        if k == 'Object Type':
            at.append(A(k, r.choice([1, 2, 3, 4, 5, 7, 8])))
        elif k == 'State':
            at.append(A(k, r.choice([1, 2, 3, 4])))
        elif k == 'Cryptographic Algorithm':
            at.append(A(k, r.choice([3, 4, 2])))
        elif k == 'Cryptographic Length':
            at.append(A(k, r.choice([128, 256, 1024])))
        elif k == 'Cryptographic Usage Mask':
            at.append(A(k, r.choice([4, 8, 12, 1, 2])))
        elif k == 'Object Group':
            at.append(A(k, r.choice(ctx.groups)))
        elif k == 'Name':
            at.append(A(k, ['name-%d' % r.randrange(1, 6), 1]))
        else:
            at.append(A(k, r.choice(ctx.policies)))
    op = {'op': 'Locate', 'attrs': at}
    if r.random() < 0.3:
        op['max'] = r.choice([0, 1, 2, 5])
    if ver >= (1, 3) and r.random() < 0.3:
        op['offset'] = r.choice([0, 1, 2])
    return op


def gen_attr_op(ctx, ver, actor):
    r = ctx.rng
    o = ctx.pick_obj()
    ref = ctx.ref(o)
    name = r.choice(['Name', 'Name', 'Object Group',
                     'Application Specific Information', 'Sensitive',
                     'Cryptographic Usage Mask', 'State',
                     'Operation Policy Name', 'Cryptographic Algorithm',
                     'Contact Information'])

    def val(n):
        if n == 'Name':
            return [ctx.uname(), 1]
        if n == 'Object Group':
            return r.choice(ctx.groups + ['grp-y'])
        if n == 'Application Specific Information':
            return ['ns%d' % r.randrange(3), 'data%d' % r.randrange(50)]
        if n == 'Sensitive':
            return r.random() < 0.5
        if n == 'Cryptographic Usage Mask':
            return gen_mask(ctx)
        if n == 'State':
            return r.choice([1, 2, 3])
        if n == 'Operation Policy Name':
            return r.choice(ctx.policies)
        if n == 'Cryptographic Algorithm':
            return r.choice([3, 2])
        return 'text'
    if name == 'Sensitive' and ver < (1, 4):
        name = 'Name'
    k = r.choice(['Modify', 'Modify', 'Delete', 'Set'])
    if k == 'Set' and ver < (2, 0):
        k = 'Modify'
    if k == 'Set':
        return {'op': 'SetAttribute', 'uid': ref, 'new': A(name, val(name))}
    idx = r.choice([None, 0, 0, 1, 2, 5])
    mine = (o or {}).get('names') or []
    if name == 'Name' and k == 'Modify' and len(mine) >= 2 and \
            r.random() < 0.4:
        # one instance of a multi-valued attribute is given the value
        # another instance of the same object already has
        i, j = r.sample(range(len(mine)), 2)
        if ver >= (2, 0):
            return {'op': 'ModifyAttribute', 'uid': ref,
                    'cur': A('Name', [mine[i], 1]),
                    'new': A('Name', [mine[j], 1])}
        return {'op': 'ModifyAttribute', 'uid': ref,
                'attr': A('Name', [mine[j], 1], i)}
    if k == 'Modify':
        if ver >= (2, 0):
            op = {'op': 'ModifyAttribute', 'uid': ref,
                  'new': A(name, val(name))}
            if r.random() < 0.7:
                op['cur'] = A(name, val(name))
            return op
        return {'op': 'ModifyAttribute', 'uid': ref,
                'attr': A(name, val(name), idx)}
    if ver >= (2, 0):
        op = {'op': 'DeleteAttribute', 'uid': ref}
        if r.random() < 0.5:
            op['cur'] = A(name, val(name))
        else:
            op['ref'] = name
        return op
    return {'op': 'DeleteAttribute', 'uid': ref, 'name': name, 'index': idx}


def gen_misc(ctx, ver, actor):
    r = ctx.rng
    if r.random() < 0.5:
        return {'op': 'Query', 'funcs': r.sample([1, 2, 3, 4, 5, 6],
                                                 r.choice([1, 2, 3]))}
    vs = [list(v) for v in r.sample(VERSIONS + [(9, 9), (0, 9)],
                                    r.choice([0, 1, 2, 3]))]
    return {'op': 'DiscoverVersions', 'versions': vs}


def gen_op(ctx, ver, actor, weights=None):
    r = ctx.rng
    w = weights or {'create': 3, 'register': 3, 'keypair': 1, 'derive': 1,
                    'use': 3, 'life': 4, 'read': 4, 'attr': 3, 'misc': 1}
    kinds = list(w)
    k = r.choices(kinds, [w[x] for x in kinds])[0]
    if not ctx.objs and k in ('use', 'life', 'attr', 'derive'):
        k = r.choice(['create', 'register'])
    return {'create': gen_create, 'register': gen_register,
            'keypair': gen_keypair, 'derive': gen_derive, 'use': gen_use,
            'life': gen_lifecycle, 'read': gen_read, 'attr': gen_attr_op,
            'misc': gen_misc}[k](ctx, ver, actor)


BOUNDARY_INTS = [0, 1, -1, 7, 2 ** 31 - 1, -2 ** 31, 65536]
BOUNDARY_TEXT = ['', ' ', 'x' * 1000, u'\u00e9\u4e2d', '0', '01', ' 1',
                 '-1', '1.0', u'\u0661']


def decorate(ctx, op):
    """Replace ONE field of a generated operation by a boundary value of the
    same TTLV type (the request stays well-typed): empty / very long /
    non-ASCII / number-like text, extreme and zero integers, empty and long
    byte strings, an element repeated in a list, an object named twice."""
    r = ctx.rng
    name = op['op']
    c = []
    at = None
    for key in ('attrs', 'common', 'private', 'public'):
        if op.get(key):
            at = op[key]
            break
    if at:
        c += ['attr_text', 'attr_int', 'attr_dup', 'attr_index']
    if 'uid' in op and op.get('uid') is not None:
        c += ['uid_text', 'uid_text']
    if op.get('uids'):
        c += ['uids_repeat', 'uid_in_list']
    if name == 'Locate':
        c += ['locate_max', 'locate_offset']
    if op.get('data') is not None:
        c += ['data_empty', 'data_long']
    if op.get('iv') is not None:
        c += ['iv_odd']
    if name == 'DeriveKey':
        c += ['derive_iter', 'derive_salt']
    if name == 'Revoke':
        c += ['revoke_msg']
    if name == 'Query':
        c += ['query_many']
    if name == 'GetAttributes':
        c += ['names_many']
    if isinstance(op.get('obj'), dict) and op['obj'].get('value') is not None:
        c += ['value_empty', 'value_long']
    if not c:
        return op
    k = r.choice(c)
    if k == 'attr_text':
        cand = [a for a in at if a['n'] in (
            'Name', 'Object Group', 'Operation Policy Name',
            'Application Specific Information', 'Contact Information')]
        if cand:
            a = r.choice(cand)
            v = r.choice(BOUNDARY_TEXT)
            if a['n'] in ('Name',):
                a['v'] = [v, a['v'][1]]
            elif a['n'] == 'Application Specific Information':
                a['v'] = [a['v'][0], v] if r.random() < 0.5 else \
                    [v, a['v'][1]]
            else:
                a['v'] = v
    elif k == 'attr_int':
        cand = [a for a in at if a['n'] in (
            'Cryptographic Length', 'Cryptographic Usage Mask')]
        if cand:
            a = r.choice(cand)
            # lengths stay small: a huge length is a (real) request to
            # generate that much key material
            a['v'] = r.choice(BOUNDARY_INTS) if a['n'] != \
                'Cryptographic Length' else r.choice([0, 1, -1, 7, 100])
    elif k == 'attr_dup':
        at.append(dict(r.choice(at)))
    elif k == 'attr_index':
        r.choice(at)['i'] = r.choice([0, 1, 5, 2 ** 31 - 1, -1])
    elif k == 'uid_text':
        op['uid'] = r.choice(BOUNDARY_TEXT + ['x' * 300])
    elif k == 'uids_repeat':
        op['uids'] = list(op['uids']) + [op['uids'][0]]
    elif k == 'uid_in_list':
        op['uids'] = list(op['uids'])
        op['uids'][r.randrange(len(op['uids']))] = r.choice(BOUNDARY_TEXT)
    elif k == 'locate_max':
        op['max'] = r.choice(BOUNDARY_INTS)
    elif k == 'locate_offset':
        op['offset'] = r.choice(BOUNDARY_INTS)
    elif k == 'data_empty':
        op['data'] = ''
    elif k == 'data_long':
        op['data'] = ctx.rbytes(r.choice([4096, 65536 + 3]))
    elif k == 'iv_odd':
        op['iv'] = ctx.rbytes(r.choice([0, 1, 15, 17, 64]))
    elif k == 'derive_iter':
        # (not 2**31-1: PBKDF2 would really run that many rounds)
        op.setdefault('params', {})['iter'] = r.choice(
            [0, 1, -1, 7, -2 ** 31, 65536])
    elif k == 'derive_salt':
        op.setdefault('params', {})['salt'] = r.choice(['', ctx.rbytes(300)])
    elif k == 'revoke_msg':
        op['msg'] = r.choice(BOUNDARY_TEXT)
    elif k == 'query_many':
        op['funcs'] = [1, 2, 3, 4, 5, 6, 1, 1]
    elif k == 'names_many':
        op['names'] = ['Name', 'Name', 'State', 'x-custom', '', 'Name']
    elif k == 'value_empty':
        op['obj']['value'] = ''
    elif k == 'value_long':
        op['obj']['value'] = ctx.rbytes(r.choice([1024, 8192]))
    op['boundary'] = k
    return op


def gen_request(ctx, actor=None, ver=None, max_items=3, weights=None,
                p_batch=0.3):
    r = ctx.rng
    if actor is None:
        actor = r.randrange(ctx.nactors)
    if ver is None:
        ver = r.choice(ctx.versions)
    n = 1
    if r.random() < p_batch:
        n = r.randint(2, max_items)
        if r.random() < 0.08:
            n = r.randint(5, 10)
    items = [gen_op(ctx, tuple(ver), actor, weights) for _ in range(n)]
    if r.random() < 0.12:
        decorate(ctx, r.choice(items))
    if items[-1]['op'] in ('Create', 'Register', 'CreateKeyPair',
                           'DeriveKey') and r.random() < 0.35 \
            and ctx.objs and items[-1].get('label'):
        # address the new object through the ID placeholder in the same
        # batch (mostly: activate it)
        k = r.choice(['Activate', 'Activate', 'Activate', 'GetAttributes',
                      'Get', 'GetAttributeList', 'Revoke'])
        if k == 'Activate':
            items.append({'op': 'Activate'})
            ctx.objs[-1]['state'] = 'Active'
        elif k == 'Revoke':
            items.append({'op': 'Revoke', 'code': r.choice([1, 2])})
        else:
            items.append({'op': k})
    req = {'actor': actor, 'ver': list(ver), 'items': items}
    if r.random() < 0.25:
        # batch item identifiers of assorted lengths (echoed by the server),
        # on single-item requests too
        req['ids'] = ['%02x' % (i + 1) + ctx.rbytes(r.choice(
            [0, 1, 6, 7, 8, 15, 23, 31, 63])) for i in range(len(items))]
        if len(items) > 1 and r.random() < 0.2:
            # nothing obliges a client to choose different identifiers
            req['ids'][-1] = req['ids'][0]
    if len(items) > 1:
        req['cont'] = r.choice([None, 1, 2, 2])
        if r.random() < 0.2:
            req['order'] = r.random() < 0.5
    if r.random() < 0.1:
        req['ts'] = r.choice([0, -5, -30])
    if r.random() < 0.06:
        req['cred'] = ['user%d' % actor, 'pw-' + ctx.rbytes(6)]
        y = r.random()
        if y < 0.3 and tuple(ver) >= (1, 1):
            req['cred'] = [{'serial': 'sn-%d' % r.randrange(99),
                            'password': 'pw-' + ctx.rbytes(6),
                            'device': r.choice([None, 'dev-1']),
                            'network': r.choice([None, 'net-1'])}]
        elif y < 0.45 and tuple(ver) >= (1, 2):
            # several credentials in one header
            req['cred'] = [req['cred'], ['second', 'pw-' + ctx.rbytes(6)]]
    if r.random() < 0.04:
        req['maxresp'] = r.choice([4096, 100000, 1 << 20])
    return req
