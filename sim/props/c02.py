"""
C02 (history half) — everything the server emits in simulation is
well-formed TTLV by an independent reader and follows the response
envelope; every frame the real client emits is well-formed TTLV.

Histories over all operations, versions and object types plus a dedicated
error-path mix: undecodable frames, unsupported versions, future / stale
time stamps (simulated clock and client skew), asynchronous indicator,
Undo option, missing batch IDs, missing / malformed certificates, failing
authentication plugin, MaximumResponseSize on both sides of the real size,
disk errors during commit.
"""
import copy

from sim import client as simclient
from sim import crash, gen, kernel, monitors, mutate, reqs, world
from sim import ttlv_ref as t
from sim.props.c12 import decodable

ID = 'C02'
LEVEL = 'exploration'
NEEDS_SHIM = True
COUNT = {'quick': 1500, 'thorough': 36000}
BUDGET_S = {'quick': 80, 'thorough': 840}
DETERMINISM = {'quick': 12, 'thorough': 80}
CHUNK = 8
RULE = ('plan = history of 10-30 requests by 2 identities (+ 3 identities '
        'with missing / two-CN / EKU-less certificates, optionally a '
        'failing SLUGS plugin) over all operations x 6 versions x 7 object '
        'types, with the error-path mix listed in the module docstring, '
        'clock jumps, and real-client traffic. Every frame handed to '
        'sendall by the session and every frame the client library emits is '
        'checked. evaluations counts frames checked. Non-trivial: the '
        'history produced >= 1 success frame and >= 2 distinct error '
        'classes. Distinct = history digest.')
PROBES = ['client_objects_read_independently', 'frames_server', 'frames_client', 'success_frames',
          'parse_failure_frames', 'auth_failure_frames',
          'header_reject_frames', 'too_large_frames',
          'general_failure_frames', 'maxresp_threshold_pairs',
          'unsupported_version_frames', 'clock_jump']
REAL_VS_STUB = {
    'real': ['TTLV encoder (all writers reached by the traffic)',
             'KmipEngine._build_response / build_error_response',
             'KmipSession response path incl. oversize replacement',
             'client request encoder (ProxyKmipClient/KMIPProxy)'],
    'stub': ['TLS, clock, entropy, RSA pool, SLUGS service, disk errors '
             'via LD_PRELOAD shim'],
}
ASSUMPTIONS = [
    'only classes that travel in the simulated traffic are seen; the pure '
    'product "every constructible value x version, byte-identical to an '
    'independent encoder" is input-only and not decided here',
    'a response to a request that could not be decoded may carry version '
    '1.0 (the request version is unknown in general)',
    'the time stamp must lie within the simulated interval of the request '
    '(+-1 s)',
]
A = gen.A


def generate(rng, tier, index):
    r = rng
    actors = [{'cn': 'alice'}, {'cn': 'bob'}]
    plugin_fails = r.random() < 0.15
    ctx = gen.Ctx(r, nactors=2)
    steps = []
    for i in range(r.randint(10, 30)):
        x = r.random()
        a = r.randrange(2)
        if i < 2 or x < 0.5:
            steps.append(gen.gen_request(ctx, actor=a))
        elif x < 0.58:
            rq = gen.gen_request(ctx, actor=a, p_batch=0)
            steps.append({'bad': rq, 'mut': mutate.gen_spec(r)})
        elif x < 0.64:
            rq = gen.gen_request(ctx, actor=a)
            rq['ver'] = r.choice([[0, 9], [1, 5], [3, 0], [2, 1]])
            steps.append(rq)
        elif x < 0.72:
            rq = gen.gen_request(ctx, actor=a)
            rq['ts'] = r.choice([0, -30, -59, -60, -61, 1, 30, 500, -500])
            steps.append(rq)
        elif x < 0.76:
            rq = gen.gen_request(ctx, actor=a)
            rq[r.choice(['async', 'undo'])] = True
            if rq.pop('undo', None):
                rq['cont'] = 3
            steps.append(rq)
        elif x < 0.8:
            rq = gen.gen_request(ctx, actor=a, p_batch=1.0)
            rq['ids'] = [None] * len(rq['items'])
            steps.append(rq)
        elif x < 0.86:
            rq = gen.gen_request(ctx, actor=r.choice([2, 3, 4]), p_batch=0)
            steps.append(rq)
        elif x < 0.92:
            o = ctx.pick_obj(None, 0)
            its = [{'op': r.choice(['Get', 'GetAttributes',
                                    'GetAttributeList']),
                    'uid': ctx.ref(o)}]
            for _ in range(r.choice([0, 0, 1, 2])):
                its.append({'op': r.choice(['Query', 'GetAttributes',
                                            'Locate']),
                            'uid': ctx.ref(ctx.pick_obj(None, 0)),
                            'funcs': [1], 'attrs': []})
            steps.append({'maxresp_probe': {
                'actor': a, 'ver': list(r.choice(gen.VERSIONS)),
                'items': its, 'cont': 1 if len(its) > 1 else None}})
        elif x < 0.95:
            rq = gen.gen_request(ctx, actor=a, p_batch=0)
            rq['disk'] = [r.randrange(1, 30), r.choice([2, 3])]
            steps.append(rq)
        elif x < 0.98:
            steps.append({'clock': r.choice([1, 59, 61, 3600, -5, -120])})
        else:
            from sim.props import c05
            steps.append({'client': True, 'ver': list(r.choice(
                gen.VERSIONS)), 'value': ctx.rbytes(16),
                'specs': [c05.gen_spec(r, r.choice(
                    gen.OTYPES + ['SplitKey', 'SplitKey']))
                    for _ in range(r.choice([1, 2, 3]))]})
    if r.random() < 0.2:
        # every error class of the cryptographic operations on one usable
        # key: authenticated decryption that does not verify, bad IV and
        # data sizes, unsupported parameters
        ver = r.choice([(1, 4), (2, 0), (1, 2)])
        a = r.randrange(2)
        steps.append({'actor': a, 'ver': [1, 2], 'items': [
            {'op': 'Register', 'label': 'aead', 'otype': 'SymmetricKey',
             'attrs': [A('Cryptographic Usage Mask', 0x0C)],
             'obj': {'kft': 1, 'value': ctx.rbytes(16), 'alg': 3,
                     'len': 128}}, {'op': 'Activate'}], 'cont': 1})
        for _ in range(r.choice([2, 3, 4])):
            k = r.choice(['gcm_bad_tag', 'gcm_bad_tag', 'cbc_bad_iv',
                          'cbc_ragged', 'gcm_short_tag', 'unsupported'])
            op = {'op': 'Decrypt', 'uid': '@aead',
                  'data': ctx.rbytes(r.choice([16, 32])),
                  'iv': ctx.rbytes(12)}
            if k == 'gcm_bad_tag':
                op['cp'] = {'alg': 3, 'mode': 9, 'tag_len': 16}
                if ver >= (1, 4):
                    op['tag'] = ctx.rbytes(16)
                    if r.random() < 0.5:
                        op['aad'] = ctx.rbytes(8)
            elif k == 'gcm_short_tag':
                op['cp'] = {'alg': 3, 'mode': 9, 'tag_len': 4}
                if ver >= (1, 4):
                    op['tag'] = ctx.rbytes(4)
            elif k == 'cbc_bad_iv':
                op['cp'] = {'alg': 3, 'mode': 1, 'padding': 3}
                op['iv'] = ctx.rbytes(r.choice([0, 7, 17]))
            elif k == 'cbc_ragged':
                op['cp'] = {'alg': 3, 'mode': 1, 'padding': 1}
                op['iv'] = ctx.rbytes(16)
                op['data'] = ctx.rbytes(r.choice([5, 17]))
            else:
                op['cp'] = {'alg': r.choice([3, 2, 0x16]),
                            'mode': r.choice([0x0B, 0x0C, 7, 2])}
            if r.random() < 0.3:
                op['op'] = 'Encrypt'
                op.pop('tag', None)
            steps.append({'actor': a, 'ver': list(ver), 'items': [op]})
    return {'actors': actors, 'plugin_fails': plugin_fails,
            'seed': r.randrange(1 << 30), 'steps': steps}


def client_object_differs(frame, spec):
    """Compare the managed object inside a Register request the client
    library emitted with the description it was built from, reading the
    frame with the independent reader. -> None | (field, want, got)"""
    try:
        tree = t.parse(frame)
    except t.TTLVError:
        return None         # reported by the well-formedness oracle
    obj = None

    def walk(n):
        nonlocal obj
        if obj is not None or n.type != t.STRUCT:
            return
        if n.tag == t.TAG['REQUEST_PAYLOAD']:
            obj = reqs.read_object(n)
            return
        for c in n.children():
            walk(c)
    walk(tree)
    if obj is None:
        return ('object', spec['otype'], None)
    want = {'otype': spec['otype']}
    if isinstance(obj.get('value'), str):
        want['value'] = spec['value']
    for a, b in (('alg', 'alg'), ('len', 'len'), ('parts', 'parts'),
                 ('part_id', 'part_id'), ('threshold', 'threshold'),
                 ('method', 'method'), ('prime', 'prime'),
                 ('sdtype', 'sdtype'), ('odtype', 'odtype')):
        if b in spec:
            want[a] = spec[b]
    if spec['otype'] in ('SymmetricKey', 'SplitKey', 'PublicKey',
                         'PrivateKey'):
        want['kft'] = spec.get('kft', 1)
    for k, v in want.items():
        if obj.get(k) != v:
            return (k, v, obj.get(k))
    return None


def execute(plan):
    sh = crash.shim()
    sh.reset()
    probes = dict((p, 0) for p in PROBES)
    faults = {'garbage': 0, 'client_skew': 0, 'jump_fwd': 0, 'jump_back': 0,
              'enospc_eio': 0, 'auth_fault': 0}
    viol = []
    actors = list(plan['actors']) + [
        {'cn': 'x', 'nocert': True}, {'cn': 'x', 'cns': ['a', 'b']},
        {'cn': 'x', 'eku': None}]
    auth = None
    if plan.get('plugin_fails'):
        auth = [('auth:slugs', {'enabled': 'True', 'url': 'http://slugs'})]
    W = world.World(actors, None, seed=plan['seed'], auth_settings=auth)
    if auth:
        world.SLUGS.users = {'alice': {'groups': ['g1']}}   # bob unknown
        faults['auth_fault'] += 1
    error_classes = set()
    evals = 0

    def flag(oracle, **det):
        viol.append({'sig': {'oracle': oracle, 'why': det.get('why')},
                     'detail': det})

    def check_exchange(frame, sent, t_in, t_out):
        nonlocal evals
        dec = decodable(frame)
        for raw in sent:
            evals += 1
            probes['frames_server'] += 1
            p = monitors.envelope_problems(raw, frame, dec, t_in, t_out)
            if p and p[0].startswith('response version differs') and \
                    b'Error verifying the client certificate' in raw:
                flag('response-violates-envelope',
                     why='certificate failure answered in KMIP 1.0 although '
                         'the request version is decodable',
                     request_version=monitors.request_version(frame))
                continue
            if p:
                flag('response-violates-envelope', why=p[0], problems=p,
                     request_decodable=dec, response=raw.hex()[:600])
                continue
            rp = reqs.Response(raw)
            for it in rp.items:
                if it['status'] == 0:
                    probes['success_frames'] += 1
                else:
                    error_classes.add(it['reason_name'])
                    k = {'InvalidMessage': 'header_reject_frames'
                         if dec else 'parse_failure_frames',
                         'AuthenticationNotSuccessful':
                             'auth_failure_frames',
                         'ResponseTooLarge': 'too_large_frames',
                         'GeneralFailure': 'general_failure_frames'}.get(
                        it['reason_name'])
                    if k:
                        probes[k] += 1

    try:
        for st in plan['steps']:
            if 'clock' in st:
                W.clock.advance(st['clock'])
                faults['jump_back' if st['clock'] < 0 else 'jump_fwd'] += 1
                probes['clock_jump'] += 1
                continue
            if 'bad' in st:
                f = reqs.build_request(st['bad'], W.resolve,
                                       now=W.clock.now)
                try:
                    f = mutate.apply(f, st['mut'])
                except Exception:
                    pass
                faults['garbage'] += 1
                frames, _ = monitors.split_frames(f)
                for fr in frames:
                    t0 = W.clock.now
                    sent = W.send_raw(st['bad']['actor'], fr)
                    conn = W.session(st['bad']['actor'])[1]
                    conn.inbox = bytearray()
                    check_exchange(fr, sent, t0, W.clock.now)
                continue
            if 'client' in st:
                from kmip.core import enums
                from kmip.pie import objects as po
                c, sock = simclient.world_client(W, 0, tuple(st['ver']))
                try:
                    uid = c.register(po.SymmetricKey(
                        enums.CryptographicAlgorithm.AES, 128,
                        bytes.fromhex(st['value'])))
                    c.get(uid)
                    c.get_attributes(uid)
                    c.locate()
                    c.destroy(uid)
                    c.get(uid)
                except Exception:
                    pass
                # objects of every type with boundary values: what the
                # client put on the wire is read back with the independent
                # reader and compared with what the caller handed over
                from sim.props import c05
                for spec in st.get('specs', []):
                    try:
                        obj = c05.build_pie(spec)
                    except Exception:
                        continue
                    nreq = len(sock.requests)
                    try:
                        c.get(c.register(obj))
                    except Exception:
                        pass
                    if len(sock.requests) > nreq:
                        probes['client_objects_read_independently'] += 1
                        d = client_object_differs(sock.requests[nreq], spec)
                        if d:
                            flag('client-encoding-differs-from-independent'
                                 '-reading', why='%s.%s' % (spec['otype'],
                                                            d[0]),
                                 want=d[1], got=d[2])
                for f in sock.requests:
                    evals += 1
                    probes['frames_client'] += 1
                    try:
                        tree = t.parse(f)
                        if tree.tag != t.TAG['REQUEST_MESSAGE']:
                            flag('client-frame-not-a-request', why=None)
                    except t.TTLVError as e:
                        flag('client-emitted-malformed-ttlv',
                             why=str(e)[:80])
                continue
            if 'maxresp_probe' in st:
                rq = copy.deepcopy(st['maxresp_probe'])
                W.request(copy.deepcopy(rq), record=False)
                sent = W.last['sent']
                if len(sent) != 1:
                    continue
                L = len(sent[0])
                for d in (-1, 0):
                    r2 = copy.deepcopy(rq)
                    r2['maxresp'] = L + d
                    t0 = W.clock.now
                    W.request(r2)
                    check_exchange(W.last['frame'], W.last['sent'], t0,
                                   W.clock.now)
                probes['maxresp_threshold_pairs'] += 1
                continue
            rq = copy.deepcopy(st)
            disk = rq.pop('disk', None)
            if rq.get('ts') is not None:
                faults['client_skew'] += 1
            if tuple(rq.get('ver', (1, 2))) not in gen.VERSIONS:
                probes['unsupported_version_frames'] += 1
            if disk:
                sh.arm(disk[0], disk[1])
            t0 = W.clock.now
            W.request(rq)
            if disk:
                if sh.fired():
                    faults['enospc_eio'] += 1
                sh.reset()
            if W.last['escape'] and 'attributes list' not in \
                    W.last['escape']:
                flag('no-response-exception-escaped',
                     why=W.last['escape'].split(':')[0],
                     escape=W.last['escape'])
            check_exchange(W.last['frame'], W.last['sent'], t0, W.clock.now)
            W.clock.advance(r_step(plan, len(W.trace)))
        nontrivial = probes['success_frames'] >= 1 and \
            len(error_classes) >= 2
        digest = kernel.digest_of(W.trace)
        return {
            'violations': viol, 'nontrivial': nontrivial, 'key': digest,
            'digest': digest, 'faults': faults, 'probes': probes,
            'evals': evals, 'sim_s': W.clock.covered(), 'steps': W.frames,
            'sample': {'error_classes': sorted(error_classes),
                       'frames': evals,
                       'steps': ['bad' if 'bad' in s else 'client'
                                 if 'client' in s else 'clock'
                                 if 'clock' in s else 'maxresp'
                                 if 'maxresp_probe' in s else
                                 [o['op'] for o in s['items']]
                                 for s in plan['steps']][:10]},
        }
    finally:
        sh.reset()
        W.close()


def r_step(plan, n):
    """Deterministic small clock step per request (0, 1 or 2 seconds)."""
    return (plan['seed'] + n * 7) % 3


def directed(tier):
    """Known finding: certificate failures are answered in KMIP 1.0."""
    return [{'actors': [{'cn': 'alice'}, {'cn': 'bob'}], 'plugin_fails':
             False, 'seed': 11, 'steps': [
                 {'actor': 2, 'ver': [1, 4], 'items': [
                     {'op': 'Query', 'funcs': [1]}]},
                 {'actor': 0, 'ver': [1, 4], 'items': [
                     {'op': 'Query', 'funcs': [1]}]}]},
            # text strings the server has DECODED and writes back: the
            # wrapping key named by a spelling that fills its 8-byte block
            # exactly is echoed inside the Key Wrapping Data of the answer
            {'actors': [{'cn': 'alice'}, {'cn': 'bob'}], 'plugin_fails':
             False, 'seed': 12, 'steps': [
                 {'actor': 0, 'ver': [1, 2], 'items': [{
                     'op': 'Register', 'label': 'wk8',
                     'otype': 'SymmetricKey',
                     'attrs': [gen.A('Cryptographic Usage Mask', 0x30)],
                     'obj': {'kft': 1, 'value': '11' * 16, 'alg': 3,
                             'len': 128}}]},
                 {'actor': 0, 'ver': [1, 2], 'items': [
                     {'op': 'Activate', 'uid': '@wk8'}]},
                 {'actor': 0, 'ver': [1, 2], 'items': [{
                     'op': 'Register', 'label': 'k8',
                     'otype': 'SymmetricKey',
                     'attrs': [gen.A('Cryptographic Usage Mask', 12),
                               gen.A('Name', ['12345678', 1], 0),
                               gen.A('Object Group', 'abcdefgh', 0)],
                     'obj': {'kft': 1, 'value': '22' * 16, 'alg': 3,
                             'len': 128}}]}] + [
                 {'actor': 0, 'ver': list(v), 'items': [{
                     'op': 'Get', 'uid': '@k8', 'wrapspec': {
                         'method': 1, 'enc': {'uid': '@wk8', 'pad8': True,
                                              'cp': {'mode': 0xD}},
                         'encoding': 1}}]}
                 for v in ((1, 0), (1, 2), (1, 4), (2, 0))] + [
                 {'actor': 0, 'ver': [1, 2], 'items': [
                     {'op': 'GetAttributes', 'uid': '@k8'}]}]}]
