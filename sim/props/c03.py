"""
C03 — access control: nothing happens to an object without a policy grant.

Safety oracle over seeded histories by several identities under random
operation policies: every successful object-addressing item, and every
successful read in a per-step sweep (GetAttributes / Get / Locate of every
object as every identity), must be granted by the reference decision
function (sim/model.py, written from the property statement and the
documentation's built-in tables). Denied requests must fail as a permission
error with the not-found text, disclose nothing and change nothing; owner
column == creator, at every step and across restarts.
"""
import copy

from sim import gen, kernel, model, observe, world

ID = 'C03'
LEVEL = 'exploration'
COUNT = {'quick': 1100, 'thorough': 24000}
BUDGET_S = {'quick': 80, 'thorough': 840}
DETERMINISM = {'quick': 16, 'thorough': 120}
CHUNK = 8
RULE = ('plan = random user policies (preset and/or group sections, missing '
        'object types / operations / groups, all three permissions) + 2-3 '
        'identities with group lists in {none, [], [g1], [g1,g2], [gX]} + '
        'a history of 4-14 requests over all object-addressing operations '
        '(incl. wrapping key in Get, base objects in DeriveKey, id-less '
        'items in batches), objects created under policy names incl. '
        'undefined ones, engine restarts; after every step every identity '
        'reads every object. Non-trivial: some object was both allowed to '
        'one identity and denied to another. Distinct = plan digest.')
PROBES = ['server_front_end', 'policy_file_events', 'threaded_contention', 'policy_reload', 'denied_direct', 'denied_indirect_wrapping_key',
          'denied_indirect_derive_base', 'allowed_by_group_section',
          'allowed_owner_only', 'undefined_policy_object', 'restart',
          'locate_filtered_something', 'idless_in_batch']
REAL_VS_STUB = {
    'real': ['KmipEngine access control (_get_object_with_access_controls, '
             '_list_objects_with_access_controls, is_allowed, ...)',
             'KmipSession incl. authenticate() and SLUGSConnector',
             'core.policy.read_policy_from_file (policies are loaded from '
             'JSON text)', 'SQLAlchemy+SQLite'],
    'stub': ['SLUGS HTTP service -> scripted fake requests module',
             'TLS/clock/entropy/RSA pool as in the inline world'],
}
PROBE_ID = '987655'      # never issued, distinct from world.NEVER_ISSUED
ASSUMPTIONS = [
    'built-in default/public tables are taken from docs/source/server.rst; '
    'Set Attribute (absent from the table) is given the permission of '
    'Modify Attribute and the "Modify" typo for Secret Data is read as '
    'Modify Attribute',
    'operations the engine evaluates under the Get permission (Encrypt, '
    'Decrypt, Sign, SignatureVerify, MAC, DeriveKey bases, wrapping key) '
    'are accepted if Get OR the operation itself is granted',
    'C03 is a safety property: over-denial is not reported here (see C14)',
]

OBJ_OPS = ['Get', 'GetAttributes', 'GetAttributeList', 'Activate', 'Revoke',
           'Destroy', 'ModifyAttribute', 'DeleteAttribute', 'SetAttribute',
           'Encrypt', 'Decrypt', 'Sign', 'SignatureVerify', 'MAC']
VIA_GET = ('Encrypt', 'Decrypt', 'Sign', 'SignatureVerify', 'MAC')
PERMS = ['ALLOW_ALL', 'ALLOW_OWNER', 'DISALLOW_ALL']
POL_OPS = ['GET', 'GET_ATTRIBUTES', 'GET_ATTRIBUTE_LIST', 'LOCATE',
           'ACTIVATE', 'REVOKE', 'DESTROY', 'MODIFY_ATTRIBUTE',
           'DELETE_ATTRIBUTE', 'SET_ATTRIBUTE']
POL_OTS = ['SYMMETRIC_KEY', 'PUBLIC_KEY', 'PRIVATE_KEY', 'SECRET_DATA',
           'OPAQUE_DATA', 'CERTIFICATE', 'SPLIT_KEY']


def gen_section(r):
    sec = {}
    for ot in POL_OTS:
        if r.random() < 0.2:
            continue                       # missing object type
        ops = {}
        base = r.choice(PERMS + ['mixed', 'mixed'])
        for op in POL_OPS:
            if r.random() < 0.12:
                continue                   # missing operation
            ops[op] = r.choice(PERMS) if base == 'mixed' else (
                base if r.random() < 0.8 else r.choice(PERMS))
        if ops:
            sec[ot] = ops
    return sec


def gen_policy(r):
    shape = r.choice(['preset', 'groups', 'both', 'both', 'flat'])
    if shape == 'flat':
        return gen_section(r)
    p = {}
    if shape in ('preset', 'both'):
        p['preset'] = gen_section(r)
    if shape in ('groups', 'both'):
        gs = {}
        empty_all = r.random() < 0.12
        for g in r.sample(['g1', 'g2', 'g3'], r.choice([1, 2])):
            # a group section may be empty: it grants nothing, but the
            # policy still "defines groups"
            gs[g] = {} if empty_all or r.random() < 0.1 else gen_section(r)
        p['groups'] = gs
    return p


def generate_threaded(r):
    """Concurrent sessions: the grant oracle applied to what each session
    was answered while others ran (identity must never be borrowed from a
    concurrently served session)."""
    nact = r.choice([2, 3])
    actors = [{'cn': 'user%d' % i} for i in range(nact)]
    ctx = gen.Ctx(r, nactors=nact, policies=['default'])
    scripts = []
    for ai in range(nact):
        ver = r.choice([(1, 2), (1, 4), (2, 0)])
        sc = []
        for j in range(r.randint(2, 4)):
            if j == 0 or r.random() < 0.35:
                y = r.random()
                op = gen.gen_create(ctx, ver, ai, want_mask=12) \
                    if y < 0.6 else (gen.gen_keypair(ctx, ver, ai)
                                     if y < 0.8 else
                                     gen.gen_register(ctx, ver, ai,
                                                      'SecretData'))
                for key in ('attrs', 'private', 'public'):
                    if op.get(key):
                        op[key] = [a for a in op[key]
                                   if a['n'] != 'Operation Policy Name']
                sc.append({'ver': list(ver), 'items': [op]})
            else:
                o = ctx.pick_obj(None, 0)
                name = r.choice(['Get', 'GetAttributes', 'Activate',
                                 'Destroy', 'GetAttributeList', 'Revoke'])
                op = {'op': name, 'uid': ctx.ref(o)}
                if name == 'Revoke':
                    op['code'] = 2
                sc.append({'ver': list(ver), 'items': [op]})
        scripts.append(sc)
    preempts = []
    for _ in range(r.choice([1, 2, 3, 4])):
        pt = int(2 ** (r.random() * 13.1)) if r.random() < 0.5 \
            else r.randrange(1, 9000)
        preempts.append(['s%d' % r.randrange(nact), pt,
                         's%d' % r.randrange(nact)])
    return {'kind': 'threaded', 'actors': actors, 'policies': {},
            'seed': r.randrange(1 << 30), 'scripts': scripts,
            'preempts': preempts,
            'tiebreaks': [r.randrange(3) for _ in range(6)], 'steps': []}


def generate(rng, tier, index):
    r = rng
    if index % 8 == 7:
        return generate_threaded(r)
    nact = r.choice([2, 3, 3])
    actors = [{'cn': 'user%d' % i} for i in range(nact)]
    if r.random() < 0.6:
        for a in actors:
            a['groups'] = r.choice([None, [], ['g1'], ['g1', 'g2'], ['gX'],
                                    ['g2']])
    policies = {}
    for nm in r.sample(['pA', 'pB', 'pC'], r.choice([1, 2, 3])):
        policies[nm] = gen_policy(r)
    names = ['default'] + sorted(policies) + ['nosuch', 'public']
    ctx = gen.Ctx(r, nactors=nact, policies=names)
    steps = []
    n = r.randint(4, 14)
    server = index % 8 == 5
    if server:
        n += 6
    for i in range(n):
        x = r.random()
        a = r.randrange(nact)
        ver = r.choice([(1, 0), (1, 2), (1, 2), (1, 4), (2, 0)])
        if server and i >= 2 and r.random() < 0.35:
            # events on policy files, then one scan of the monitor: several
            # files may define one policy name (shadowing), files come, are
            # rewritten and go in any combination
            evs = []
            used = set()
            if r.random() < 0.25:
                # `rm *.json`: every defining file disappears between two
                # scans (a name that was shadowed must not come back)
                steps.append({'policy': {}, 'pfiles': [['clear']]})
                continue
            for _ in range(r.choice([1, 1, 2, 2, 3])):
                f = r.choice(['a.json', 'b.json', 'c.json',
                              'init-pA.json', 'init-pB.json'])
                if r.random() < 0.55:
                    n2 = r.choice(['pA', 'pA', 'pB', 'pC'])
                    if n2 in used:
                        continue
                    used.add(n2)
                    evs.append(['write', f, n2, gen_policy(r)])
                else:
                    evs.append(['remove', f])
            steps.append({'policy': {}, 'pfiles': evs})
            continue
        if i < 2 or x < 0.28:
            # create something, usually under an explicit policy
            y = r.random()
            vv = ver if ver < (2, 0) or r.random() < 0.3 else (1, 4)
            if y < 0.45:
                op = gen.gen_create(ctx, vv, a, want_mask=0x200 | 0x1c)
            elif y < 0.9:
                op = gen.gen_register(ctx, vv, a, want_mask=0x200 | 0x1f)
            else:
                op = gen.gen_keypair(ctx, vv, a)
            items = [op]
            if r.random() < 0.2:
                items.append({'op': r.choice(['Get', 'GetAttributes',
                                              'Destroy'])})
            steps.append({'actor': a, 'ver': list(vv), 'items': items,
                          'cont': 1 if len(items) > 1 else None})
        elif x < 0.34:
            steps.append({'restart': True})
        elif x < 0.40:
            # the policy directory monitor replaces / removes a user policy
            nm = r.choice(['pA', 'pB', 'pC'])
            steps.append({'policy': {nm: gen_policy(r)
                                     if r.random() < 0.75 else None}})
            # (server mode: the same moment seen as events on policy FILES,
            # several files may define one name; 1-3 events, then one scan)
            evs = []
            used = set()
            for _ in range(r.choice([1, 1, 2, 3])):
                f = r.choice(['a.json', 'b.json', 'c.json', 'init-pA.json',
                              'init-pB.json', 'init-pC.json'])
                if r.random() < 0.6:
                    n2 = r.choice(['pA', 'pB', 'pC'])
                    if n2 in used:
                        continue
                    used.add(n2)
                    evs.append(['write', f, n2, gen_policy(r)])
                else:
                    evs.append(['remove', f])
            steps[-1]['pfiles'] = evs
        elif x < 0.47 and ctx.objs:
            # indirect reach: wrapping key / derivation base of someone else
            o = ctx.pick_obj(['SymmetricKey', 'SecretData'], 0)
            k = ctx.pick_obj(['SymmetricKey'], 0)
            if r.random() < 0.5:
                op = {'op': 'Get', 'uid': ctx.ref(o), 'wrapspec': {
                    'method': 1, 'enc': {'uid': ctx.ref(k),
                                         'cp': {'mode': 0xD}},
                    'encoding': 1}}
            else:
                op = gen.gen_derive(ctx, ver, a)
                op['uids'] = [ctx.ref(o)] + ([ctx.ref(k)]
                                             if r.random() < 0.3 else [])
                op['attrs'] = [gen.A('Cryptographic Length', 128),
                               gen.A('Cryptographic Algorithm', 3),
                               gen.A('Cryptographic Usage Mask', 12)]
            steps.append({'actor': a, 'ver': list(max(ver, (1, 2))),
                          'items': [op]})
        else:
            o = ctx.pick_obj(None, 0.03)
            name = r.choice(OBJ_OPS)
            vv = ver
            if name == 'SetAttribute':
                vv = (2, 0)
            elif name in VIA_GET and vv < (1, 2):
                vv = (1, 2)
            op = {'op': name, 'uid': ctx.ref(o)}
            if name == 'Revoke':
                op['code'] = r.choice([1, 2])
            elif name in ('Encrypt', 'Decrypt'):
                op.update({'cp': {'alg': 3, 'mode': 2, 'padding': 3},
                           'data': ctx.rbytes(16)})
            elif name == 'Sign':
                op.update({'cp': {'alg': 4, 'hash': 6, 'padding': 8},
                           'data': ctx.rbytes(8)})
            elif name == 'SignatureVerify':
                op.update({'cp': {'alg': 4, 'hash': 6, 'padding': 8},
                           'data': ctx.rbytes(8), 'sig': ctx.rbytes(128)})
            elif name == 'MAC':
                op.update({'cp': {'alg': 9}, 'data': ctx.rbytes(8)})
            elif name == 'ModifyAttribute':
                if vv >= (2, 0):
                    op.update({'new': gen.A('Sensitive', True)})
                else:
                    op.update({'attr': gen.A('Name', [ctx.uname(), 1], 0)})
            elif name == 'DeleteAttribute':
                if vv >= (2, 0):
                    op.update({'ref': 'Name'})
                else:
                    op.update({'name': 'Name', 'index': 0})
            elif name == 'SetAttribute':
                op.update({'new': gen.A('Sensitive', True)})
            steps.append({'actor': a, 'ver': list(vv), 'items': [op]})
    if nact >= 2 and r.random() < 0.2:
        # two owners whose objects carry the same value of a multi-valued
        # attribute (group, name of an application, ...); one of them then
        # changes that value on HIS object - the other's must stay as it is
        a, b = r.sample(range(nact), 2)
        attr = r.choice(['Object Group', 'Object Group',
                         'Application Specific Information'])
        val = 'shared-grp' if attr == 'Object Group' else ['ns0', 'shared']
        new = 'renamed-grp' if attr == 'Object Group' else ['ns0', 'renamed']
        for who in (a, b):
            op = gen.gen_register(ctx, (1, 2), who, 'SymmetricKey',
                                  want_mask=12)
            op['attrs'] = [x_ for x_ in op['attrs'] if x_['n'] not in (
                'Object Group', 'Application Specific Information',
                'Operation Policy Name')] + [gen.A(attr, val, 0)]
            steps.append({'actor': who, 'ver': [1, 2], 'items': [op]})
        lab = steps[-1]['items'][0]['label']
        if r.random() < 0.5:
            steps.append({'actor': b, 'ver': [2, 0], 'items': [{
                'op': 'ModifyAttribute', 'uid': '@' + lab,
                'cur': gen.A(attr, val), 'new': gen.A(attr, new)}]})
        else:
            steps.append({'actor': b, 'ver': [1, 2], 'items': [{
                'op': 'ModifyAttribute', 'uid': '@' + lab,
                'attr': gen.A(attr, new, 0)}]})
    return {'server': server, 'actors': actors, 'policies': policies,
            'seed': r.randrange(1 << 30), 'steps': steps}


def targets(op, resolve):
    """[(role, uid)] of the objects an item reaches."""
    out = []
    name = op['op']
    if name in OBJ_OPS and op.get('uid') is not None:
        out.append(('direct', resolve(op['uid'])))
    if name == 'Get' and op.get('wrapspec'):
        enc = op['wrapspec'].get('enc')
        if enc:
            out.append(('wrapping_key', resolve(enc['uid'])))
    if name == 'DeriveKey':
        for u in op.get('uids', []):
            out.append(('derive_base', resolve(u)))
    return out


def execute_threaded(plan):
    from sim import threaded
    probes = dict((p, 0) for p in PROBES)
    viol = []
    store = model.policy_store(plan['policies'])
    W = threaded.ThreadedWorld(plan['actors'], plan['scripts'],
                               preempts=plan['preempts'],
                               tiebreaks=plan['tiebreaks'],
                               user_policies=plan['policies'],
                               seed=plan['seed'])
    try:
        hist = W.run()
        S = W.sched
        if S.aborted and S.aborted.startswith('step cap'):
            raise RuntimeError('step cap reached')
        view = model.store_view(W.db)
        probes['threaded_contention'] = S.contention
        switches = S.schedule_signature()
        events = list(S.events)
    finally:
        W.close()
    creators = {}
    mixed = False
    for h in hist:
        resp = h.get('resp')
        if resp is None or h.get('req') is None:
            continue
        cn = plan['actors'][h['actor']]['cn']
        for op, it in zip(h['req']['items'], resp.items):
            if it['status'] != 0:
                continue
            p = it['payload']
            if op['op'] in ('Create', 'Register', 'CreateKeyPair'):
                for u in (p.get('uids') or []) + [p.get('private_uid'),
                                                  p.get('public_uid')]:
                    if u:
                        creators[u] = cn
                continue
            if op['op'] not in OBJ_OPS:
                continue
            uid = (p.get('uids') or [None])[0]
            o = view.get(uid)
            if o is None:
                continue
            keys = [model.OP_KEY[op['op']]]
            if not any(model.grants(store, o['policy'], cn, None,
                                    o['owner'], o['otype'], k)
                       for k in keys):
                viol.append({
                    'sig': {'oracle': 'effect-without-grant',
                            'op': op['op'], 'role': 'concurrent'},
                    'detail': {'actor': cn, 'uid': uid, 'owner': o['owner'],
                               'policy': o['policy'], 'otype': o['otype']}})
            if o['owner'] != cn:
                mixed = True
    for uid, o in view.items():
        if uid in creators and o['owner'] != creators[uid]:
            viol.append({'sig': {'oracle': 'owner-is-not-creator',
                                 'op': None, 'role': 'concurrent'},
                         'detail': {'uid': uid, 'owner': o['owner'],
                                    'creator': creators[uid]}})
    digest = kernel.digest_of([events, [h.get('sent') for h in hist]])
    return {
        'violations': viol, 'nontrivial': S.contention > 0,
        'key': kernel.digest_of(switches) + digest, 'digest': digest,
        'faults': {'preempt': S.fired_preempts,
                   'lock_contention': S.contention},
        'probes': probes, 'schedule': kernel.digest_of(switches),
        'sim_s': 0.0, 'steps': S.steps,
        'sample': {'kind': 'threaded', 'clients': [
            [[o['op'] for o in rq['items']] for rq in sc]
            for sc in plan['scripts']], 'switches': switches[:6]},
    }


def execute(plan):
    if plan.get('kind') == 'threaded':
        return execute_threaded(plan)
    probes = dict((p, 0) for p in PROBES)
    viol = []
    states = []
    store = model.policy_store(plan['policies'])
    current = dict(plan['policies'])
    loads = {}
    seq = [0]
    if plan.get('server'):
        # engine, policy store and monitor as the real KmipServer wires
        # them; user policies arrive through policy files and scans
        from sim import serverworld
        W = serverworld.ServerWorld(
            plan['actors'], None, seed=plan['seed'],
            policy_files=dict(('init-%s.json' % nm, {nm: doc})
                              for nm, doc in plan['policies'].items()),
            server_opts={'live': True})
        W.tick()
        for nm, doc in sorted(plan['policies'].items()):
            seq[0] += 1
            loads['init-%s.json' % nm] = (seq[0], nm, doc)
        probes['server_front_end'] += 1
    else:
        W = world.World(plan['actors'], plan['policies'],
                        seed=plan['seed'])
    allowed_to = {}
    denied_to = {}
    creators = {}

    def ident(ai):
        a = plan['actors'][ai]
        return a['cn'], a.get('groups')

    def granted(o, ai, opkeys):
        user, groups = ident(ai)
        for k in opkeys:
            if model.grants(store, o['policy'], user, groups, o['owner'],
                            o['otype'], k):
                return True
        return False

    def flag(oracle, **det):
        viol.append({'sig': {'oracle': oracle,
                             'op': det.get('op'), 'role': det.get('role')},
                     'detail': det})

    try:
        for si, st in enumerate(plan['steps']):
            if 'restart' in st:
                W.restart()
                probes['restart'] += 1
                if plan.get('server'):
                    # the new monitor loads every file in one scan, in
                    # sorted order: a later file name now is the later load
                    W.tick()
                    for f_ in sorted(loads):
                        seq[0] += 1
                        loads[f_] = (seq[0],) + tuple(loads[f_][1:])
                    current.clear()
                    for f_, (sq, nm, doc) in sorted(
                            loads.items(), key=lambda kv: kv[1][0]):
                        current[nm] = doc
                    store.clear()
                    store.update(model.policy_store(current))
                continue
            if 'policy' in st and plan.get('server'):
                import json as _json
                import os as _os
                for ev in st.get('pfiles', []):
                    W.clock.advance(1)
                    if ev[0] == 'clear':
                        for f_ in sorted(_os.listdir(W.policy_dir)):
                            if f_.endswith('.json'):
                                _os.remove(_os.path.join(W.policy_dir, f_))
                        loads.clear()
                        continue
                    path = _os.path.join(W.policy_dir, ev[1])
                    if ev[0] == 'write':
                        with open(path, 'w') as fh:
                            _json.dump({ev[2]: ev[3]}, fh)
                        _os.utime(path, (W.clock.now, W.clock.now))
                        seq[0] += 1
                        loads[ev[1]] = (seq[0], ev[2], ev[3])
                    elif _os.path.exists(path):
                        _os.remove(path)
                        loads.pop(ev[1], None)
                    else:
                        loads.pop(ev[1], None)
                W.tick()
                current.clear()
                for f_, (sq, nm, doc) in sorted(loads.items(),
                                                key=lambda kv: kv[1][0]):
                    current[nm] = doc
                store.clear()
                store.update(model.policy_store(current))
                probes['policy_reload'] += 1
                probes['policy_file_events'] += len(st.get('pfiles', []))
                continue
            if 'policy' in st:
                # what the monitor does to the shared store on a reload
                for nm, doc in st['policy'].items():
                    current[nm] = doc
                    if doc is None:
                        current.pop(nm, None)
                        W.policies.pop(nm, None)
                    else:
                        W.policies.update(world.convert_policies({nm: doc}))
                        if nm not in world.convert_policies({nm: doc}):
                            W.policies.pop(nm, None)
                store.clear()
                store.update(model.policy_store(current))
                probes['policy_reload'] += 1
                continue
            before = model.store_view(W.db)
            dump_before = W.dump()
            ai = st['actor']
            resp = W.request(copy.deepcopy(st))
            after = model.store_view(W.db)
            if resp is None:
                continue
            all_failed = all(it['status'] != 0 for it in resp.items)
            created_in_batch = None
            for op, it in zip(st['items'], resp.items):
                name = op['op']
                if it['status'] == 0 and name in (
                        'Create', 'Register', 'DeriveKey', 'CreateKeyPair'):
                    ids = it['payload'].get('uids') or [
                        it['payload'].get('private_uid'),
                        it['payload'].get('public_uid')]
                    for u in ids:
                        creators[u] = plan['actors'][ai]['cn']
                    created_in_batch = ids[0]
                tg = targets(op, W.resolve)
                if name in OBJ_OPS and op.get('uid') is None:
                    probes['idless_in_batch'] += 1
                    if it['status'] == 0 and it['payload'].get('uids'):
                        tg.append(('direct', it['payload']['uids'][0]))
                for role, uid in tg:
                    o = before.get(uid) or after.get(uid)
                    if o is None:
                        continue
                    if o['policy'] not in store:
                        probes['undefined_policy_object'] += 1
                    if role == 'direct':
                        keys = [model.OP_KEY[name]]
                        if name in VIA_GET:
                            keys.append('GET')
                    else:
                        keys = ['GET', model.OP_KEY.get(name, 'GET')]
                    ok = granted(o, ai, keys)
                    if it['status'] == 0 and not ok:
                        flag('effect-without-grant', op=name, role=role,
                             uid=uid, actor=ai, step=si, policy=o['policy'],
                             owner=o['owner'], otype=o['otype'],
                             identity=ident(ai))
                    if ok:
                        allowed_to.setdefault(uid, set()).add(ai)
                        continue
                    denied_to.setdefault(uid, set()).add(ai)
                    probes['denied_' + {
                        'direct': 'direct',
                        'wrapping_key': 'indirect_wrapping_key',
                        'derive_base': 'indirect_derive_base'}[role]] += 1
                    if it['status'] == 0:
                        continue
                    # the same item naming a never-issued identifier
                    probe_op = copy.deepcopy(op)
                    probe_op.pop('label', None)
                    if role == 'direct':
                        probe_op['uid'] = PROBE_ID
                    elif role == 'wrapping_key':
                        probe_op['wrapspec']['enc']['uid'] = \
                            PROBE_ID
                    else:
                        probe_op['uids'] = [
                            PROBE_ID if W.resolve(u) == uid else u
                            for u in op['uids']]
                    pr = W.request({'actor': ai, 'ver': st['ver'],
                                    'items': [probe_op]}, record=False)
                    pit = pr.items[0] if pr is not None and pr.items \
                        else None
                    want_msg = None if pit is None or pit['message'] is None \
                        else pit['message'].replace(PROBE_ID, uid)
                    if it['message'] != want_msg:
                        flag('denial-text-differs-from-not-found', op=name,
                             role=role, got=it['message'], want=want_msg,
                             uid=uid)
                    elif role == 'direct' and \
                            it['reason_name'] != 'PermissionDenied':
                        flag('denial-is-not-a-permission-error', op=name,
                             role=role, reason=it['reason_name'], uid=uid)
                    elif role != 'direct' and it['reason_name'] not in (
                            'PermissionDenied', pit['reason_name']):
                        flag('denial-is-not-a-permission-error', op=name,
                             role=role, reason=it['reason_name'], uid=uid)
                    if it['has_payload']:
                        flag('denial-carries-payload', op=name, role=role)
                    secrets = [s for s in (o['names'] + [o['value'],
                                                         o['owner']])
                               if s and len(s) >= 4]
                    if it['message'] and any(
                            s in it['message'] for s in secrets):
                        flag('denial-discloses-object-data', op=name,
                             role=role, message=it['message'])
                if name == 'Locate' and it['status'] == 0:
                    for u in it['payload'].get('uids', []):
                        o = after.get(u)
                        if o is None or not granted(o, ai, ['LOCATE']):
                            flag('locate-lists-unpermitted-object',
                                 op='Locate', role='direct', uid=u,
                                 actor=ai, identity=ident(ai),
                                 policy=None if o is None else o['policy'])
            # whatever the request named: an object that is different
            # afterwards was changed by this requester, who therefore needs
            # a grant for SOME changing operation on it
            for u in sorted(set(before) & set(after)):
                if before[u] == after[u]:
                    continue
                o = before[u]
                if not granted(o, ai, ['MODIFY_ATTRIBUTE', 'DELETE_ATTRIBUTE',
                                       'SET_ATTRIBUTE', 'ACTIVATE', 'REVOKE',
                                       'DESTROY']):
                    flag('object-changed-without-any-grant',
                         op=[x['op'] for x in st['items']], role=None,
                         uid=u, actor=ai, identity=ident(ai),
                         owner=o['owner'], policy=o['policy'],
                         changed=sorted(k for k in o
                                        if o[k] != after[u].get(k)))
            if all_failed and W.dump() != dump_before:
                flag('failed-request-changed-store',
                     op=[o['op'] for o in st['items']], role=None)
            # ---- sweep: every identity reads every object -------------
            view = model.store_view(W.db)
            api = observe.api(W, uids=sorted(view, key=int))
            for ais, v in api.items():
                ai2 = int(ais)
                if 'locate' not in v:
                    flag('observation-broken', op='sweep', role=None,
                         detail=str(v)[:300])
                    continue
                listed = v['locate'][1].get('uids', []) \
                    if v['locate'][0] == 'ok' else []
                hidden = 0
                for uid, o in view.items():
                    for what, key in (('attrs', 'GET_ATTRIBUTES'),
                                      ('get', 'GET')):
                        ok = granted(o, ai2, [key])
                        got = v[uid][what][0] == 'ok'
                        if got and not ok:
                            flag('read-without-grant', op=key, role='sweep',
                                 uid=uid, actor=ai2, identity=ident(ai2),
                                 policy=o['policy'], owner=o['owner'],
                                 otype=o['otype'])
                        if ok:
                            allowed_to.setdefault(uid, set()).add(ai2)
                            user, groups = ident(ai2)
                            if groups and (store.get(o['policy']) or {}
                                           ).get('groups'):
                                probes['allowed_by_group_section'] += 1
                            if o['owner'] == user and len(
                                    allowed_to[uid]) == 1:
                                probes['allowed_owner_only'] += 1
                        else:
                            denied_to.setdefault(uid, set()).add(ai2)
                    if uid in listed and not granted(o, ai2, ['LOCATE']):
                        flag('locate-lists-unpermitted-object', op='Locate',
                             role='sweep', uid=uid, actor=ai2,
                             identity=ident(ai2), policy=o['policy'])
                    if uid not in listed:
                        hidden += 1
                if hidden:
                    probes['locate_filtered_something'] += 1
                for u in listed:
                    if u not in view:
                        flag('locate-lists-unknown-object', op='Locate',
                             role='sweep', uid=u)
            # ---- owner column == creator, forever ---------------------
            for uid, o in view.items():
                if uid in creators and o['owner'] != creators[uid]:
                    flag('owner-is-not-creator', op=None, role=None,
                         uid=uid, owner=o['owner'], creator=creators[uid])
            states.append(kernel.digest_of(sorted(view.items())))
        nontrivial = any(allowed_to.get(u) and denied_to.get(u)
                         for u in set(allowed_to) | set(denied_to))
        digest = kernel.digest_of(W.trace)
        return {
            'violations': viol, 'nontrivial': nontrivial, 'key': digest,
            'digest': digest, 'faults': {'restart_clean': W.restarts},
            'probes': probes, 'states': states,
            'sim_s': W.clock.covered(), 'steps': W.requests,
            'sample': {'actors': plan['actors'],
                       'policy_shapes': dict(
                           (k, sorted(v)) for k, v in
                           plan['policies'].items()),
                       'ops': [[o['op'] for o in s['items']]
                               if 'items' in s else
                               ('restart' if 'restart' in s else 'policy')
                               for s in plan['steps']]},
        }
    finally:
        W.close()


SHRINK_LISTS = ['steps', 'preempts']


def simplify(plan):
    if plan.get('kind') == 'threaded':
        return
    for i, st in enumerate(plan['steps']):
        if 'items' in st and len(st['items']) > 1:
            for j in range(len(st['items'])):
                c = copy.deepcopy(plan)
                del c['steps'][i]['items'][j]
                yield c
    for nm in sorted(plan['policies']):
        if any('policy' in s and nm in s['policy'] for s in plan['steps']):
            continue
        c = copy.deepcopy(plan)
        del c['policies'][nm]
        yield c
    if len(plan['actors']) > 2:
        used = set(s['actor'] for s in plan['steps'] if 'actor' in s)
        if used and max(used) < len(plan['actors']) - 1:
            c = copy.deepcopy(plan)
            c['actors'] = c['actors'][:max(used) + 1]
            yield c
