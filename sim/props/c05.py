"""
C05 — stored objects come back exactly as stored, through the real client
library, the wire, the session, the engine and SQLite, under every KMIP
version, at any later time incl. after clean restarts and kill-restarts.

ProxyKmipClient -> KMIPProxy -> KMIPProtocol -> simulated socket (chunked
both ways) -> KmipSession -> KmipEngine -> SQLite. Objects of the seven
stored types with boundary values are registered / created / derived, then
read back (get, get_attributes, get_attribute_list) after every later step
by clients speaking different versions.
"""
import copy
import os

from sim import client as simclient
from sim import crash, gen, kernel, world
from sim.props import c09

ID = 'C05'
LEVEL = 'exploration'
NEEDS_SHIM = True
COUNT = {'quick': 700, 'thorough': 16000}
BUDGET_S = {'quick': 80, 'thorough': 840}
DETERMINISM = {'quick': 12, 'thorough': 80}
CHUNK = 6
RULE = ('plan = 2-6 objects (seven stored types; values empty/1 byte/'
        'typical/1024+ bytes; every usage-mask subset class; 0-3 names incl. '
        'non-ASCII and both name types; application information; key '
        'wrapping data with optional fields present/absent; split-key '
        'fields; enum members incl. the largest) stored through the real '
        'client under a seeded version, interleaved with other clients\' '
        'operations, clean restarts and kill-restarts during OTHER '
        'operations; every object is read back after every step by a '
        'client of a seeded version. Non-trivial: an object with >= 2 '
        'optional fields was read back after >= 1 restart. Distinct = '
        'trace digest.')
PROBES = ['key_pair_with_overlapping_templates', 'destroy_of_a_stored_object', 'wrapped_get_then_commit', 'proxy_register_with_template', 'group_changed_on_one_object',
          'restart', 'kill_restart', 'wrapped_key_roundtrip',
          'split_key_roundtrip', 'non_ascii_name', 'empty_mask',
          'full_mask', 'large_value', 'server_generated', 'read_under_2_0',
          'read_under_1_0', 'chunked_transport']
REAL_VS_STUB = {
    'real': ['ProxyKmipClient', 'KMIPProxy', 'KMIPProtocol',
             'pie ObjectFactory both ways', 'TTLV codec both ways',
             'KmipSession', 'KmipEngine', 'pie SQL type decorators',
             'SQLAlchemy+SQLite'],
    'stub': ['TLS sockets on both sides -> simulated sockets with planned '
             'chunking', 'KMIPProxy.open() (cannot run on Python 3.12)',
             'libc file calls under SQLite -> LD_PRELOAD shim for '
             'kill-restarts', 'clock/entropy/RSA pool'],
}
ASSUMPTIONS = [
    'attributes that ProxyKmipClient.register can supply: usage mask, '
    'operation policy name, names, application specific information',
    'server-assigned attributes expected: Unique Identifier, Object Type, '
    'State=Pre-Active (not for opaque objects), Initial Date = simulated '
    'time of creation, Operation Policy Name=default below KMIP 2.0, '
    'Sensitive=False from KMIP 1.4',
    'ProxyKmipClient.create always adds Encrypt|Decrypt to the requested '
    'usage mask (client design); the expectation includes them',
]

MASK_BITS = [1 << i for i in range(20)]


# prime field sizes: small, and magnitudes at the 64-bit block boundaries of
# the Big Integer encoding (sign bit of the leading block set / clear)
PRIMES = [7, 104729, 2 ** 61 - 1, 2 ** 63 - 25, 2 ** 63 - 1, 2 ** 64 - 59,
          2 ** 127 - 1, 2 ** 128 - 159]


FULL_RANGE = {'block_cipher_mode': 18, 'padding_method': 10,
              'hashing_algorithm': 17, 'key_role_type': 24,
              'digital_signature_algorithm': 19,
              'cryptographic_algorithm': 56}


def gen_masks(r):
    x = r.random()
    if x < 0.12:
        return []
    if x < 0.24:
        return list(MASK_BITS)
    if x < 0.34:
        return [MASK_BITS[-1]]
    return sorted(r.sample(MASK_BITS, r.randint(1, 6)))


def gen_value(r, kind='key', ln=None):
    if ln is not None:
        return bytes(r.getrandbits(8) for _ in range(ln)).hex()
    n = r.choice([1, 8, 16, 32, 33, 255, 1024, 1500])
    if r.random() < 0.06:
        n = 0
    return bytes(r.getrandbits(8) for _ in range(n)).hex()


def gen_wrapping(r):
    w = {'wrapping_method': r.choice([1, 2, 3])}
    full = r.random() < 0.35     # whole enumerations instead of a few members
    if full:
        w['wrapping_method'] = r.randrange(1, 6)
    if r.random() < 0.8:
        eki = {'unique_identifier': str(r.randrange(1, 50))}
        if r.random() < 0.7:
            cp = {}
            for k, vals in (('block_cipher_mode', [1, 2, 0xD, 0x12]),
                            ('padding_method', [1, 3, 0xA]),
                            ('hashing_algorithm', [1, 6, 0xE]),
                            ('key_role_type', [1, 0x15]),
                            ('digital_signature_algorithm', [1, 0x11]),
                            ('cryptographic_algorithm', [1, 3, 0x2D]),
                            ('random_iv', [True, False]),
                            ('iv_length', [0, 12, 96]),
                            ('tag_length', [0, 16]),
                            ('fixed_field_length', [4]),
                            ('invocation_field_length', [8]),
                            ('counter_length', [0, 32]),
                            ('initial_counter_value', [0, 1])):
                if r.random() < 0.4:
                    cp[k] = r.choice(vals)
                    if full and k in FULL_RANGE:
                        cp[k] = r.randrange(1, FULL_RANGE[k] + 1)
            eki['cryptographic_parameters'] = cp
        w['encryption_key_information'] = eki
    if r.random() < 0.3:
        w['mac_signature_key_information'] = {
            'unique_identifier': str(r.randrange(1, 50)),
            'cryptographic_parameters': {'hashing_algorithm': 6}}
    if r.random() < 0.3:
        w['mac_signature'] = gen_value(r, ln=r.choice([1, 16, 32]))
    if r.random() < 0.4:
        w['iv_counter_nonce'] = gen_value(r, ln=r.choice([1, 12, 16]))
    if r.random() < 0.6:
        w['encoding_option'] = r.choice([1, 2])
    return w


def gen_names(r):
    out = []
    for i in range(r.choice([1, 1, 2, 3])):
        nm = 'obj-%d-%d' % (r.randrange(10 ** 6), i)
        if r.random() < 0.25:
            nm += u'-é中Ж'
        out.append(nm)
    return out


def gen_spec(r, otype):
    s = {'otype': otype, 'masks': gen_masks(r), 'names': gen_names(r)}
    if r.random() < 0.4 and otype in ('SymmetricKey', 'PublicKey',
                                      'PrivateKey', 'SecretData'):
        s['app'] = [['ns%d' % r.randrange(3), 'data%d' % r.randrange(99)]
                    for _ in range(r.choice([1, 2]))]
    if otype in ('SymmetricKey', 'SplitKey'):
        alg = r.choice([3, 2, 0x10, 0x11, 1, 0x19, 0x2D])
        if r.random() < 0.35:
            alg = r.randrange(1, 57)      # every member of the enumeration
        ln = r.choice([128, 192, 256, 64, 8, 4096])
        s.update({'alg': alg, 'len': ln, 'value': gen_value(
            r, ln=r.choice([ln // 8, ln // 8, 1, 33]))})
        if r.random() < 0.3:
            s['wrap'] = gen_wrapping(r)
        if otype == 'SplitKey':
            s.update({'parts': r.choice([1, 2, 255]),
                      'part_id': r.choice([1, 2]),
                      'threshold': r.choice([1, 2]),
                      'method': r.choice([1, 2, 3, 4]),
                      'kft': r.choice([1, 2, 7])})
            if s['method'] == 3 or r.random() < 0.3:
                s['prime'] = r.choice(PRIMES)
    elif otype == 'PublicKey':
        pv = gen.rsa_values(r.randrange(6))
        s.update({'alg': 4, 'len': 1024, 'value': pv[0],
                  'kft': r.choice([3, 3, 5])})
        if r.random() < 0.2:
            s['wrap'] = gen_wrapping(r)
    elif otype == 'PrivateKey':
        pv = gen.rsa_values(r.randrange(6))
        s.update({'alg': 4, 'len': 1024, 'value': pv[1],
                  'kft': r.choice([4, 4, 3])})
        if r.random() < 0.2:
            s['wrap'] = gen_wrapping(r)
    elif otype == 'Certificate':
        s.update({'value': gen.cert_value() if r.random() < 0.7
                  else gen_value(r)})
    elif otype == 'SecretData':
        s.update({'value': gen_value(r), 'sdtype': r.choice([1, 2])})
    else:
        s.update({'value': gen_value(r), 'odtype': 0x80000000})
        s.pop('masks')
        s.pop('app', None)
    return s


def generate(rng, tier, index):
    r = rng
    actors = [{'cn': 'alice'}, {'cn': 'bob'}]
    steps = []
    labels = []
    n = r.randint(2, 6)
    k = 0
    total = r.randint(6, 16)
    # the other client's view of its own objects lives as long as the plan:
    # its later requests activate, rename and destroy what it stored earlier
    octx = gen.Ctx(r, nactors=2)
    for i in range(total):
        x = r.random()
        ver = r.choice(gen.VERSIONS)
        if len(labels) < n and (i < 2 or x < 0.35):
            k += 1
            lab = 'c%d' % k
            y = r.random()
            if y < 0.72:
                st = {'do': 'register', 'label': lab, 'ver': list(ver),
                      'spec': gen_spec(r, r.choice(gen.OTYPES))}
            elif y < 0.80:
                # KMIPProxy.register with an explicit template: attributes
                # ProxyKmipClient.register cannot send (groups, name types,
                # sensitive flag)
                spec = gen_spec(r, r.choice(gen.OTYPES))
                spec['names'] = [[nm, r.choice([1, 1, 2])]
                                 for nm in spec['names']]
                if spec['otype'] != 'OpaqueData' or r.random() < 0.5:
                    spec['groups'] = [r.choice(['grp-a', 'grp-b', 'grp-c'])
                                      for _ in range(r.choice([0, 1, 1, 2]))]
                    spec['groups'] = list(dict.fromkeys(spec['groups']))
                if ver >= (1, 4) and r.random() < 0.5:
                    spec['sensitive'] = r.random() < 0.6
                if r.random() < 0.5:
                    spec['app'] = [['ns%d' % r.randrange(3),
                                    'data%d' % r.randrange(99)]
                                   for _ in range(r.choice([1, 2]))]
                st = {'do': 'proxy_register', 'label': lab,
                      'ver': list(ver), 'spec': spec}
            elif y < 0.88:
                st = {'do': 'create', 'label': lab, 'ver': list(ver),
                      'alg': 3, 'len': r.choice([128, 192, 256]),
                      'masks': gen_masks(r) or [4, 8],
                      'name': gen_names(r)[0]}
            elif y < 0.93:
                st = {'do': 'create_key_pair', 'label': lab,
                      'ver': list(ver), 'len': 1024,
                      'masks': [1], 'pub_masks': [2]}
                if r.random() < 0.5 and ver < (2, 0):
                    st = {'do': 'proxy_create_key_pair', 'label': lab,
                          'ver': list(ver), 'len': 1024,
                          'masks': r.choice([[1], [8], [1, 8]]),
                          'pub_masks': r.choice([[2], [4], [2, 4]]),
                          'common_masks': r.choice([None, [1, 2],
                                                    [4, 8], [0x80]])}
                labels.append(lab + '.pub')
            else:
                st = {'do': 'derive', 'label': lab, 'ver': list(
                    max(ver, (1, 0))), 'len': r.choice([128, 256])}
            labels.append(lab)
            steps.append(st)
        elif x < 0.37 and labels:
            # somebody fetches a stored key in wrapped form inside a batch
            # that goes on to change the store
            steps.append({'do': 'wrapped_get_batch',
                          'label': r.choice(labels)})
        elif x < 0.41 and labels:
            steps.append({'do': 'modify_group', 'label': r.choice(labels),
                          'index': r.choice([0, 0, 1]),
                          'how': r.choice(['modify', 'modify', 'delete']),
                          'to': 'grp-%d' % r.randrange(1000)})
        elif x < 0.43:
            steps.append({'do': 'restart'})
        elif x < 0.47:
            if octx.objs and r.random() < 0.5:
                # the other client destroys one of its objects
                o = octx.objs.pop(r.randrange(len(octx.objs)))
                steps.append({'do': 'other', 'req': {
                    'actor': 1, 'ver': [1, 2], 'items': [
                        {'op': 'Destroy', 'uid': '@' + o['label']}]}})
            elif labels:
                lab = labels.pop(r.randrange(len(labels)))
                steps.append({'do': 'destroy', 'label': lab})
            else:
                steps.append({'do': 'restart'})
        elif x < 0.58:
            steps.append({'do': 'kill_restart',
                          'k': r.choice([0, 1, 3, 8, 20, 29, 30, 40]),
                          'seed': r.randrange(1 << 30)})
        elif x < 0.8:
            # another client's traffic (independent builder)
            steps.append({'do': 'other', 'req': gen.gen_request(
                octx, actor=1, weights={'create': 3, 'register': 3,
                                        'read': 2, 'misc': 1, 'life': 3,
                                        'use': 0, 'attr': 2, 'derive': 0,
                                        'keypair': 1})})
        else:
            steps.append({'do': 'activate', 'label': r.choice(labels)
                          if labels else 'c1'})
        steps[-1]['read_ver'] = list(r.choice(gen.VERSIONS))
        steps[-1]['chunks'] = r.choice([None, None, [1] * 40,
                                        [7, 1, 3, 50, 2] * 5, [8, 8, 8]])
    return {'actors': actors, 'seed': r.randrange(1 << 30), 'steps': steps}


# ---------------------------------------------------------------------------
def build_pie(spec):
    from kmip.core import enums
    from kmip.pie import objects as po
    ot = spec['otype']
    masks = None
    if 'masks' in spec:
        masks = [enums.CryptographicUsageMask(m) for m in spec['masks']]
    value = bytes.fromhex(spec['value'])
    name = spec['names'][0]
    app = None
    if spec.get('app'):
        app = [{'application_namespace': a, 'application_data': b}
               for a, b in spec['app']]
    kw = {}
    if spec.get('wrap') is not None:
        kw['key_wrapping_data'] = conv_wrap_in(spec['wrap'])
    if ot == 'SymmetricKey':
        o = po.SymmetricKey(enums.CryptographicAlgorithm(spec['alg']),
                            spec['len'], value, masks=masks, name=name,
                            app_specific_info=app, **kw)
    elif ot == 'PublicKey':
        o = po.PublicKey(enums.CryptographicAlgorithm(spec['alg']),
                         spec['len'], value,
                         format_type=enums.KeyFormatType(spec['kft']),
                         masks=masks, name=name, app_specific_info=app, **kw)
    elif ot == 'PrivateKey':
        o = po.PrivateKey(enums.CryptographicAlgorithm(spec['alg']),
                          spec['len'], value,
                          enums.KeyFormatType(spec['kft']), masks=masks,
                          name=name, app_specific_info=app, **kw)
    elif ot == 'SplitKey':
        o = po.SplitKey(
            cryptographic_algorithm=enums.CryptographicAlgorithm(
                spec['alg']),
            cryptographic_length=spec['len'], key_value=value,
            cryptographic_usage_masks=masks, name=name,
            key_format_type=enums.KeyFormatType(spec['kft']),
            split_key_parts=spec['parts'],
            key_part_identifier=spec['part_id'],
            split_key_threshold=spec['threshold'],
            split_key_method=enums.SplitKeyMethod(spec['method']),
            prime_field_size=spec.get('prime'), **kw)
    elif ot == 'Certificate':
        o = po.X509Certificate(value, masks=masks, name=name)
    elif ot == 'SecretData':
        o = po.SecretData(value, enums.SecretDataType(spec['sdtype']),
                          masks=masks, name=name, app_specific_info=app)
    else:
        o = po.OpaqueObject(value, enums.OpaqueDataType(spec['odtype']),
                            name=name)
    for extra in spec['names'][1:]:
        o.names.append(extra)
    return o


ENUM_FIELDS = {
    'wrapping_method': 'WrappingMethod', 'encoding_option': 'EncodingOption',
    'block_cipher_mode': 'BlockCipherMode', 'padding_method': 'PaddingMethod',
    'hashing_algorithm': 'HashingAlgorithm', 'key_role_type': 'KeyRoleType',
    'digital_signature_algorithm': 'DigitalSignatureAlgorithm',
    'cryptographic_algorithm': 'CryptographicAlgorithm'}


def conv_wrap_in(w):
    """plan form (ints / hex) -> the dict form pie objects take."""
    from kmip.core import enums
    out = {}
    for k, v in w.items():
        if isinstance(v, dict):
            out[k] = conv_wrap_in(v)
        elif k in ENUM_FIELDS:
            out[k] = getattr(enums, ENUM_FIELDS[k])(v)
        elif k in ('mac_signature', 'iv_counter_nonce'):
            out[k] = bytes.fromhex(v)
        else:
            out[k] = v
    return out


def conv_wrap_out(w):
    """pie dict form -> plan form, dropping absent (None / empty) fields."""
    import enum
    if w is None:
        return None
    out = {}
    for k, v in w.items():
        if isinstance(v, dict):
            v = conv_wrap_out(v)
            if v:
                out[k] = v
        elif v is None:
            continue
        elif isinstance(v, enum.Enum):
            out[k] = v.value
        elif isinstance(v, (bytes, bytearray)):
            out[k] = bytes(v).hex()
        else:
            out[k] = v
    return out


def project(o):
    """Independent projection of a pie object returned by client.get."""
    import enum

    def ev(x):
        return x.value if isinstance(x, enum.Enum) else x
    d = {'class': type(o).__name__,
         'value': None if o.value is None else bytes(o.value).hex()}
    for f in ('cryptographic_algorithm', 'cryptographic_length',
              'key_format_type', 'certificate_type', 'data_type',
              'opaque_type', 'split_key_parts', 'key_part_identifier',
              'split_key_threshold', 'split_key_method', 'prime_field_size'):
        if hasattr(o, f):
            d[f] = ev(getattr(o, f))
    if hasattr(o, 'key_wrapping_data'):
        d['wrap'] = conv_wrap_out(o.key_wrapping_data) or None
    return d


def expected_projection(spec):
    ot = spec['otype']
    cls = {'SymmetricKey': 'SymmetricKey', 'PublicKey': 'PublicKey',
           'PrivateKey': 'PrivateKey', 'SplitKey': 'SplitKey',
           'Certificate': 'X509Certificate', 'SecretData': 'SecretData',
           'OpaqueData': 'OpaqueObject'}[ot]
    d = {'class': cls, 'value': spec['value']}
    if ot in ('SymmetricKey', 'PublicKey', 'PrivateKey', 'SplitKey'):
        d.update({'cryptographic_algorithm': spec['alg'],
                  'cryptographic_length': spec['len'],
                  'key_format_type': spec.get('kft', 1),
                  'wrap': conv_wrap_out(conv_wrap_in(spec['wrap']))
                  if spec.get('wrap') else None})
    if ot == 'SplitKey':
        d.update({'split_key_parts': spec['parts'],
                  'key_part_identifier': spec['part_id'],
                  'split_key_threshold': spec['threshold'],
                  'split_key_method': spec['method'],
                  'prime_field_size': spec.get('prime')})
    if ot == 'Certificate':
        d.update({'certificate_type': 1})
    if ot == 'SecretData':
        d.update({'data_type': spec['sdtype']})
    if ot == 'OpaqueData':
        d.update({'opaque_type': spec['odtype']})
    return d


def attrs_plain(attrs, no_indices=False):
    """core Attribute list -> sorted [(name, index, value)]."""
    import enum
    out = []
    seen = {}
    for a in attrs:
        n = a.attribute_name.value
        i = a.attribute_index.value if a.attribute_index is not None else 0
        if no_indices:
            # KMIP 2.0 carries no attribute indices: order is the index
            i = seen.get(n, 0)
            seen[n] = i + 1
        v = a.attribute_value
        if n == 'Name':
            v = [v.name_value.value, v.name_type.value.value]
        elif n == 'Application Specific Information':
            v = [v.application_namespace, v.application_data]
        elif hasattr(v, 'value'):
            v = v.value
            if isinstance(v, enum.Enum):
                v = v.value
        out.append([n, i, v])
    return sorted(out, key=lambda x: (x[0], x[1]))


def expected_attrs(e, read_ver):
    """e: what the harness knows about the object."""
    rv = tuple(read_ver)
    out = [['Unique Identifier', 0, e['uid']],
           ['Object Type', 0, e['object_type']],
           ['Initial Date', 0, e['created_at']]]
    if e['otype'] != 'OpaqueData':
        out.append(['State', 0, e.get('state', 1)])
        m = 0
        for b in e.get('masks') or []:
            m |= b
        out.append(['Cryptographic Usage Mask', 0, m])
    if rv < (2, 0):
        out.append(['Operation Policy Name', 0, 'default'])
    if rv >= (1, 4):
        out.append(['Sensitive', 0, bool(e.get('sensitive') or False)])
    for i, g in enumerate(e.get('groups') or []):
        out.append(['Object Group', i, g])
    if e['otype'] in ('SymmetricKey', 'PublicKey', 'PrivateKey', 'SplitKey'):
        out.append(['Cryptographic Algorithm', 0, e['alg']])
        out.append(['Cryptographic Length', 0, e['len']])
    if e['otype'] == 'Certificate':
        out.append(['Certificate Type', 0, 1])
    nts = e.get('name_types') or []
    for i, nm in enumerate(e.get('names') or []):
        out.append(['Name', i, [nm, nts[i] if i < len(nts) else 1]])
    for i, ap in enumerate(e.get('app') or []):
        out.append(['Application Specific Information', i, list(ap)])
    return sorted(out, key=lambda x: (x[0], x[1]))


OT_NUM = {'SymmetricKey': 2, 'PublicKey': 3, 'PrivateKey': 4, 'SplitKey': 5,
          'Certificate': 1, 'SecretData': 7, 'OpaqueData': 8}


def execute(plan):
    from kmip.core import enums
    from kmip.pie import exceptions as pexc
    sh = crash.shim()
    sh.reset()
    probes = dict((p, 0) for p in PROBES)
    viol = []
    W = world.World(plan['actors'], None, seed=plan['seed'])
    known = {}      # label -> facts
    trace = []
    restarts_seen = 0
    nontrivial = False

    def flag(oracle, **det):
        viol.append({'sig': {'oracle': oracle, 'otype': det.get('otype'),
                             'field': det.get('field')}, 'detail': det})

    def cl(ver, chunks=None):
        c, s = simclient.world_client(W, 0, ver, server_chunks=chunks)
        if chunks:
            s.chunks = list(chunks) * 20
            probes['chunked_transport'] += 1
        return c

    try:
        for si, st in enumerate(plan['steps']):
            do = st['do']
            ver = tuple(st.get('ver', (1, 2)))
            try:
                if do == 'register':
                    spec = st['spec']
                    try:
                        obj = build_pie(spec)
                    except Exception as e:
                        trace.append(['unconstructible', type(e).__name__])
                        continue
                    c = cl(ver, st.get('chunks'))
                    t = int(W.clock.now)
                    uid = c.register(obj)
                    e = dict(spec)
                    e.update({'uid': uid, 'created_at': t,
                              'object_type': OT_NUM[spec['otype']],
                              'proj': expected_projection(spec),
                              'stored_since_restart': restarts_seen})
                    if spec['otype'] in ('SymmetricKey', 'PublicKey',
                                         'PrivateKey', 'SplitKey'):
                        e['alg'], e['len'] = spec['alg'], spec['len']
                    known[st['label']] = e
                    if any(ord(ch) > 127 for nm in spec['names']
                           for ch in nm):
                        probes['non_ascii_name'] += 1
                    if spec.get('masks') == []:
                        probes['empty_mask'] += 1
                    if spec.get('masks') and len(spec['masks']) == 20:
                        probes['full_mask'] += 1
                    if len(spec['value']) >= 2048:
                        probes['large_value'] += 1
                elif do == 'proxy_register':
                    from kmip.core import attributes as cattr
                    from kmip.core import objects as cobj
                    from kmip.core.factories import attributes as caf
                    spec = st['spec']
                    flat = dict(spec)
                    flat['names'] = [n[0] for n in spec['names']]
                    try:
                        obj = build_pie(flat)
                    except Exception as e:
                        trace.append(['unconstructible', type(e).__name__])
                        continue
                    c = cl(ver, st.get('chunks'))
                    fac = caf.AttributeFactory()
                    AT = enums.AttributeType
                    at = []
                    if 'masks' in spec:
                        at.append(fac.create_attribute(
                            AT.CRYPTOGRAPHIC_USAGE_MASK,
                            [enums.CryptographicUsageMask(m)
                             for m in spec['masks']]))
                    for i, (nm, nt) in enumerate(spec['names']):
                        at.append(fac.create_attribute(
                            AT.NAME, cattr.Name.create(
                                nm, enums.NameType(nt)), i))
                    for i, g in enumerate(spec.get('groups') or []):
                        at.append(fac.create_attribute(AT.OBJECT_GROUP, g,
                                                       i))
                    for i, ap in enumerate(spec.get('app') or []):
                        at.append(fac.create_attribute(
                            AT.APPLICATION_SPECIFIC_INFORMATION,
                            {'application_namespace': ap[0],
                             'application_data': ap[1]}, i))
                    if spec.get('sensitive') is not None:
                        at.append(fac.create_attribute(AT.SENSITIVE,
                                                       spec['sensitive']))
                    t = int(W.clock.now)
                    res = c.proxy.register(
                        obj.object_type, cobj.TemplateAttribute(
                            attributes=at),
                        c.object_factory.convert(obj))
                    if res.result_status.value != \
                            enums.ResultStatus.SUCCESS:
                        trace.append(['refused', do,
                                      str(res.result_reason.value),
                                      res.result_message.value])
                        continue
                    e = dict(flat)
                    e.update({'uid': res.uuid, 'created_at': t,
                              'object_type': OT_NUM[spec['otype']],
                              'proj': expected_projection(flat),
                              'name_types': [n[1] for n in spec['names']],
                              'stored_since_restart': restarts_seen})
                    if spec['otype'] in ('SymmetricKey', 'PublicKey',
                                         'PrivateKey', 'SplitKey'):
                        e['alg'], e['len'] = spec['alg'], spec['len']
                    known[st['label']] = e
                    probes['proxy_register_with_template'] += 1
                elif do == 'wrapped_get_batch':
                    e = known.get(st['label'])
                    if e is None:
                        continue
                    if 'wk' not in W.labels:
                        W.request({'actor': 0, 'ver': [1, 2], 'cont': 1,
                                   'items': [{
                                       'op': 'Register', 'label': 'wk',
                                       'otype': 'SymmetricKey', 'attrs': [
                                           gen.A('Cryptographic Usage Mask',
                                                 0x10)],
                                       'obj': {'kft': 1, 'value': '5a' * 16,
                                               'alg': 3, 'len': 128}},
                                       {'op': 'Activate'}]})
                    rp = W.request({'actor': 0, 'ver': [1, 2], 'cont': 1,
                                    'items': [
                        {'op': 'Get', 'uid': e['uid'], 'wrapspec': {
                            'method': 1, 'enc': {'uid': '@wk',
                                                 'cp': {'mode': 0xD}},
                            'encoding': 1}},
                        {'op': 'Register', 'otype': 'SecretData',
                         'attrs': [gen.A('Cryptographic Usage Mask', 4)],
                         'obj': {'sdtype': 1, 'value': 'bb' * 8}}]})
                    if rp is not None and rp.items and \
                            rp.items[0]['status'] == 0:
                        probes['wrapped_get_then_commit'] += 1
                elif do == 'modify_group':
                    e = known.get(st['label'])
                    if e is None or not e.get('groups') or \
                            st['index'] >= len(e['groups']):
                        continue
                    i = st['index']
                    if st['how'] == 'modify':
                        op = {'op': 'ModifyAttribute', 'uid': e['uid'],
                              'attr': gen.A('Object Group', st['to'], i)}
                    else:
                        op = {'op': 'DeleteAttribute', 'uid': e['uid'],
                              'name': 'Object Group', 'index': i}
                    rp = W.request({'actor': 0, 'ver': [1, 2],
                                    'items': [op]})
                    if rp is not None and rp.items and \
                            rp.items[0]['status'] == 0:
                        if st['how'] == 'modify':
                            e['groups'][i] = st['to']
                        else:
                            e['groups'].pop(i)
                        probes['group_changed_on_one_object'] += 1
                elif do == 'create':
                    c = cl(ver, st.get('chunks'))
                    t = int(W.clock.now)
                    uid = c.create(
                        enums.CryptographicAlgorithm(st['alg']), st['len'],
                        name=st['name'],
                        cryptographic_usage_mask=[
                            enums.CryptographicUsageMask(m)
                            for m in st['masks']])
                    known[st['label']] = {
                        'uid': uid, 'otype': 'SymmetricKey',
                        'object_type': 2, 'created_at': t, 'alg': st['alg'],
                        'len': st['len'],
                        'masks': sorted(set(st['masks']) | {4, 8}),
                        'names': [st['name']], 'proj': None,
                        'generated': True,
                        'stored_since_restart': restarts_seen}
                    probes['server_generated'] += 1
                elif do == 'create_key_pair':
                    c = cl(ver, st.get('chunks'))
                    t = int(W.clock.now)
                    pub, priv = c.create_key_pair(
                        enums.CryptographicAlgorithm.RSA, st['len'],
                        public_usage_mask=[enums.CryptographicUsageMask(m)
                                           for m in st['pub_masks']],
                        private_usage_mask=[enums.CryptographicUsageMask(m)
                                            for m in st['masks']])
                    for lab, uid, ot, mk in (
                            (st['label'], priv, 'PrivateKey', st['masks']),
                            (st['label'] + '.pub', pub, 'PublicKey',
                             st['pub_masks'])):
                        known[lab] = {
                            'uid': uid, 'otype': ot,
                            'object_type': OT_NUM[ot], 'created_at': t,
                            'alg': 4, 'len': st['len'], 'masks': mk,
                            'names': [], 'proj': None, 'generated': True,
                            'stored_since_restart': restarts_seen}
                    probes['server_generated'] += 1
                elif do == 'proxy_create_key_pair':
                    # KMIPProxy.create_key_pair with explicit templates in
                    # which the common template and the key-specific ones
                    # name the same attribute (usage mask): the specific
                    # template is what the client asked for that key
                    from kmip.core import objects as cobj
                    from kmip.core.factories import attributes as caf
                    c = cl(ver, st.get('chunks'))
                    fac = caf.AttributeFactory()
                    AT = enums.AttributeType

                    def mask_attr(ms):
                        return fac.create_attribute(
                            AT.CRYPTOGRAPHIC_USAGE_MASK,
                            [enums.CryptographicUsageMask(m) for m in ms])
                    common = [fac.create_attribute(
                        AT.CRYPTOGRAPHIC_ALGORITHM,
                        enums.CryptographicAlgorithm.RSA),
                        fac.create_attribute(AT.CRYPTOGRAPHIC_LENGTH,
                                             st['len'])]
                    if st.get('common_masks') is not None:
                        common.append(mask_attr(st['common_masks']))
                    t = int(W.clock.now)
                    res = c.proxy.create_key_pair(
                        common_template_attribute=cobj.TemplateAttribute(
                            attributes=common, tag=enums.Tags.
                            COMMON_TEMPLATE_ATTRIBUTE),
                        private_key_template_attribute=cobj.TemplateAttribute(
                            attributes=[mask_attr(st['masks'])],
                            tag=enums.Tags.PRIVATE_KEY_TEMPLATE_ATTRIBUTE),
                        public_key_template_attribute=cobj.TemplateAttribute(
                            attributes=[mask_attr(st['pub_masks'])],
                            tag=enums.Tags.PUBLIC_KEY_TEMPLATE_ATTRIBUTE))
                    if res.result_status.value != enums.ResultStatus.SUCCESS:
                        trace.append(['refused', do,
                                      str(res.result_reason.value)])
                        continue
                    for lab, uid, ot, mk in (
                            (st['label'], res.private_key_uuid,
                             'PrivateKey', st['masks']),
                            (st['label'] + '.pub', res.public_key_uuid,
                             'PublicKey', st['pub_masks'])):
                        known[lab] = {
                            'uid': uid, 'otype': ot,
                            'object_type': OT_NUM[ot], 'created_at': t,
                            'alg': 4, 'len': st['len'], 'masks': mk,
                            'names': [], 'proj': None, 'generated': True,
                            'stored_since_restart': restarts_seen}
                    probes['key_pair_with_overlapping_templates'] += 1
                elif do == 'derive':
                    base = [e for e in known.values()
                            if e['otype'] == 'SymmetricKey' and
                            0x200 in (e.get('masks') or [])]
                    if not base:
                        continue
                    c = cl(max(ver, (1, 0)), st.get('chunks'))
                    t = int(W.clock.now)
                    uid = c.derive_key(
                        enums.ObjectType.SYMMETRIC_KEY, [base[0]['uid']],
                        enums.DerivationMethod.HMAC,
                        {'cryptographic_parameters': {
                            'hashing_algorithm':
                                enums.HashingAlgorithm.SHA_256},
                         'derivation_data': b'\x01\x02'},
                        cryptographic_length=st['len'],
                        cryptographic_algorithm=enums.
                        CryptographicAlgorithm.AES,
                        cryptographic_usage_mask=[
                            enums.CryptographicUsageMask.ENCRYPT])
                    known[st['label']] = {
                        'uid': uid, 'otype': 'SymmetricKey',
                        'object_type': 2, 'created_at': t, 'alg': 3,
                        'len': st['len'], 'masks': [4], 'names': [],
                        'proj': None, 'generated': True,
                        'stored_since_restart': restarts_seen}
                elif do == 'activate':
                    e = known.get(st['label'])
                    if e is not None and e['otype'] != 'OpaqueData' and \
                            e.get('state', 1) == 1:
                        cl((1, 2)).activate(e['uid'])
                        e['state'] = 2
                elif do == 'other':
                    W.request(copy.deepcopy(st['req']))
                elif do == 'destroy':
                    # one stored object goes away: every other one must
                    # still come back exactly
                    e = known.get(st['label'])
                    if e is not None and e.get('state', 1) == 1:
                        cl((1, 2)).destroy(e['uid'])
                        known.pop(st['label'], None)
                        probes['destroy_of_a_stored_object'] += 1
                elif do == 'restart':
                    W.restart()
                    restarts_seen += 1
                    probes['restart'] += 1
                elif do == 'kill_restart':
                    probes['kill_restart'] += 1
                    ks = c09.snapshot_kernel()
                    d = W.dir
                    W.stop_engine()

                    def child(report, k=st['k'], d=d, ks=ks):
                        w = world.World(plan['actors'], None, workdir=d,
                                        reset=False)
                        c09.restore(ks)
                        rq = {'actor': 1, 'ver': [1, 2], 'items': [{
                            'op': 'Register', 'otype': 'SecretData',
                            'attrs': [gen.A('Cryptographic Usage Mask', 4)],
                            'obj': {'sdtype': 1, 'value': 'aa' * 9}}]}
                        if k == 0:
                            w.session(1)[1].sendall = \
                                lambda data: os._exit(137)
                        else:
                            sh.arm(k, crash.KILL)
                        w.request(rq, record=False)
                        sh.reset()
                        w.stop_engine()
                    crash.run_child(child)
                    kernel.OS.rng = kernel.SimRng(st['seed'])
                    W.rng = kernel.OS.rng
                    W.start_engine()
                    restarts_seen += 1
            except pexc.KmipOperationFailure as e:
                trace.append(['refused', do, str(e.reason), e.message])
                known.pop(st.get('label'), None)
                known.pop(str(st.get('label')) + '.pub', None)
                continue
            W.clock.advance(1)
            # ---- read everything back -------------------------------
            rv = tuple(st.get('read_ver', (1, 2)))
            if rv >= (2, 0):
                probes['read_under_2_0'] += 1
            if rv == (1, 0):
                probes['read_under_1_0'] += 1
            c = cl(rv, st.get('chunks'))
            for lab, e in sorted(known.items()):
                try:
                    got = c.get(e['uid'])
                    gp = project(got)
                except Exception as ex:
                    flag('get-failed', otype=e['otype'], field=None,
                         error='%s: %s' % (type(ex).__name__, ex),
                         version=rv)
                    continue
                if e['proj'] is None:
                    # server generated: the first read is the reference
                    if e.get('generated') and gp['value'] is not None and \
                            e['otype'] == 'SymmetricKey' and \
                            len(gp['value']) // 2 * 8 != e['len']:
                        flag('generated-key-has-wrong-size',
                             otype=e['otype'], field='value',
                             want=e['len'], got=len(gp['value']) * 4)
                    if gp.get('cryptographic_algorithm') != e['alg'] or \
                            gp.get('cryptographic_length') != e['len']:
                        flag('object-differs', otype=e['otype'],
                             field='algorithm/length', got=gp)
                    e['proj'] = gp
                elif gp != e['proj']:
                    diff = sorted(k for k in set(gp) | set(e['proj'])
                                  if gp.get(k) != e['proj'].get(k))
                    flag('object-differs', otype=e['otype'],
                         field=diff[0], fields=diff,
                         want=dict((k, e['proj'].get(k)) for k in diff),
                         got=dict((k, gp.get(k)) for k in diff),
                         version=rv,
                         after_restarts=restarts_seen -
                         e['stored_since_restart'])
                    continue
                if e.get('wrap'):
                    probes['wrapped_key_roundtrip'] += 1
                if e['otype'] == 'SplitKey':
                    probes['split_key_roundtrip'] += 1
                try:
                    _, attrs = c.get_attributes(e['uid'])
                    names = c.get_attribute_list(e['uid'])
                except Exception as ex:
                    flag('get-attributes-failed', otype=e['otype'],
                         field=None, version=rv,
                         error='%s: %s' % (type(ex).__name__, ex))
                    continue
                ap = attrs_plain(attrs, no_indices=rv >= (2, 0))
                want = expected_attrs(e, rv)
                if ap != want:
                    miss = [x for x in want if x not in ap]
                    extra = [x for x in ap if x not in want]
                    flag('attributes-differ', otype=e['otype'],
                         field=(miss or extra)[0][0], missing=miss,
                         unexpected=extra, version=rv)
                if sorted(set(names)) != sorted(set(x[0] for x in want)):
                    flag('attribute-list-differs', otype=e['otype'],
                         field=None, got=sorted(set(names)),
                         want=sorted(set(x[0] for x in want)), version=rv)
                nopt = sum(1 for k in ('wrap', 'app', 'prime') if e.get(k))
                nopt += 1 if len(e.get('names') or []) > 1 else 0
                nopt += 1 if any(ord(ch) > 127 for nm in e.get('names') or []
                                 for ch in nm) else 0
                nopt += 1 if len(e.get('masks') or []) not in (0, 1) else 0
                if nopt >= 2 and restarts_seen > e['stored_since_restart']:
                    nontrivial = True
            trace.append([do, sorted((l, e['uid']) for l, e in
                                     known.items())])
        digest = kernel.digest_of([W.trace, trace,
                                   sorted((l, e['proj'])
                                          for l, e in known.items())])
        return {
            'violations': viol, 'nontrivial': nontrivial, 'key': digest,
            'digest': digest,
            'faults': {'restart_clean': probes['restart'],
                       'crash': probes['kill_restart'],
                       'chunk': probes['chunked_transport']},
            'probes': probes, 'states': [kernel.digest_of(t) for t in trace],
            'sim_s': W.clock.covered(), 'steps': W.frames,
            'sample': [(s['do'], (s.get('spec') or {}).get('otype'),
                        s.get('ver'), s.get('read_ver'))
                       for s in plan['steps']][:10],
        }
    finally:
        sh.reset()
        W.close()
