"""
C11 — requests are isolated from each other's transient state.

Oracle: self-differential. After a prefix history on a live engine, the
database file is copied and a *fresh* engine is opened on the copy (same
policies, same simulated clock, same entropy stream). The probe request is
sent to both; response and resulting store must be identical.
"""
import copy
import os
import shutil

from sim import gen, kernel, world

ID = 'C11'
LEVEL = 'exploration'
COUNT = {'quick': 4000, 'thorough': 60000}
BUDGET_S = {'quick': 60, 'thorough': 780}
DETERMINISM = {'quick': 24, 'thorough': 200}
CHUNK = 10
RULE = ('plan = seeded prefix history (1-3 identities, random versions, '
        'batches, failing requests, header-level rejections, restarts, '
        'clock steps) + one probe request; executed on a live engine and on '
        'a fresh engine over a copy of the database. Non-trivial: the prefix '
        'contains a successful creating request and the probe is id-less or '
        'differs from the last prefix request in version or identity. '
        'Distinct = digest of (prefix results, probe).')
PROBES = ['concurrent_sessions_plan', 'prefix_corrupted_frame', 'probe_after_response_size_limit_on_same_session', 'probe_idless', 'probe_version_switch', 'probe_identity_switch',
          'prefix_header_reject', 'prefix_failed_batch', 'restart_in_prefix']
REAL_VS_STUB = {
    'real': ['KmipEngine', 'KmipSession._handle_message_loop/authenticate',
             'auth.utils', 'TTLV decoder/encoder (server side)',
             'SQLAlchemy+SQLite on tmpfs'],
    'stub': ['TLS socket -> FakeConnection with real DER certificate',
             'time -> SimClock', 'os.urandom -> seeded SimRng',
             'rsa.generate_private_key -> key pool',
             'client side -> independent TTLV builder/reader'],
}
ASSUMPTIONS = ['requests are delivered whole (chunking is C12)',
               'single session thread at a time (concurrency is C10)']

IDLESS_OPS = ['Get', 'GetAttributes', 'GetAttributeList', 'Destroy',
              'Encrypt', 'Decrypt', 'Sign', 'SignatureVerify', 'MAC',
              'ModifyAttribute', 'DeleteAttribute', 'SetAttribute']
CREATORS = ('Create', 'CreateKeyPair', 'Register', 'DeriveKey')


def gen_probe(ctx, r, last):
    x = r.random()
    ver = r.choice(gen.VERSIONS)
    actor = r.randrange(ctx.nactors)
    if x < 0.45:
        # id-less probe
        name = r.choice(IDLESS_OPS)
        if name in ('SetAttribute',):
            ver = (2, 0)
        if name in ('Encrypt', 'Decrypt', 'Sign', 'SignatureVerify', 'MAC'):
            ver = r.choice([(1, 2), (1, 3), (1, 4), (2, 0)])
        op = {'op': name}
        if name in ('Encrypt', 'Decrypt'):
            op.update({'cp': {'alg': 3, 'mode': 2, 'padding': 3},
                       'data': ctx.rbytes(16)})
        elif name in ('Sign',):
            op.update({'cp': {'alg': 4, 'hash': 6, 'padding': 8},
                       'data': ctx.rbytes(8)})
        elif name == 'SignatureVerify':
            op.update({'cp': {'alg': 4, 'hash': 6, 'padding': 8},
                       'data': ctx.rbytes(8), 'sig': ctx.rbytes(128)})
        elif name == 'MAC':
            op.update({'cp': {'alg': 9}, 'data': ctx.rbytes(8)})
        elif name == 'ModifyAttribute':
            if ver >= (2, 0):
                op.update({'new': gen.A('Name', ['probe-name', 1])})
            else:
                op.update({'attr': gen.A('Name', ['probe-name', 1], 0)})
        elif name == 'DeleteAttribute':
            if ver >= (2, 0):
                op.update({'ref': 'Name'})
            else:
                op.update({'name': 'Name', 'index': 0})
        elif name == 'SetAttribute':
            op.update({'new': gen.A('Sensitive', True)})
        items = [op]
        y = r.random()
        if y < 0.25:
            # in a batch after a creating item (legitimate placeholder use)
            items = [gen.gen_create(ctx, ver, actor, want_mask=12), op]
        elif y < 0.35:
            # after a creating item that fails
            bad = gen.gen_create(ctx, ver, actor)
            bad['attrs'] = [a for a in bad['attrs']
                            if a['n'] != 'Cryptographic Length']
            items = [bad, op]
        req = {'actor': actor, 'ver': list(ver), 'items': items}
        if len(items) > 1:
            req['cont'] = 1
        return req
    if x < 0.75:
        # version / identity sensitive reads of an existing object
        o = ctx.pick_obj()
        ref = ctx.ref(o)
        name = r.choice(['GetAttributes', 'GetAttributeList', 'Get',
                         'Locate'])
        op = {'op': name}
        if name != 'Locate':
            op['uid'] = ref
        else:
            op['attrs'] = []
        if last is not None and r.random() < 0.6:
            # switch exactly one of version / identity
            if r.random() < 0.5:
                actor = last['actor']
            else:
                ver = tuple(last['ver'])
        return {'actor': actor, 'ver': list(ver), 'items': [op]}
    return gen.gen_request(ctx, actor=actor, ver=ver)


def generate(rng, tier, index):
    r = rng
    if index % 12 == 11:
        # requests of concurrently served sessions: the transient state of
        # one must not reach the other either (the schedules, workload and
        # sequential-witness oracle of the C10 check)
        from sim.props import c10
        plan = c10.generate(rng, tier, index)
        plan['kind'] = 'concurrent'
        plan['steps'] = []
        return plan
    nact = r.choice([1, 2, 2, 3])
    actors = [{'cn': 'user%d' % i} for i in range(nact)]
    if r.random() < 0.25:
        for a in actors:
            a['groups'] = r.choice([None, [], ['g1'], ['g1', 'g2']])
    policies = None
    ctx = gen.Ctx(r, nactors=nact)
    if r.random() < 0.3:
        policies = {'open': {'preset': dict(
            (ot, dict((op, 'ALLOW_ALL') for op in
                      ['GET', 'GET_ATTRIBUTES', 'GET_ATTRIBUTE_LIST',
                       'LOCATE', 'ACTIVATE', 'REVOKE', 'DESTROY',
                       'MODIFY_ATTRIBUTE', 'DELETE_ATTRIBUTE',
                       'SET_ATTRIBUTE']))
            for ot in ['SYMMETRIC_KEY', 'PUBLIC_KEY', 'PRIVATE_KEY',
                       'SECRET_DATA', 'OPAQUE_DATA', 'CERTIFICATE',
                       'SPLIT_KEY'])}}
        ctx.policies = ['default', 'open', 'public']
    steps = []
    n = r.choice([1, 2, 3, 4, 6, 8, 12])
    last = None
    for _ in range(n):
        x = r.random()
        if x < 0.04 and last is not None:
            # a corrupted frame on some client's connection: whatever the
            # server picked up while reading it must not outlive it
            from sim import mutate
            rq = gen.gen_request(ctx, p_batch=0.0)
            if r.random() < 0.5:
                rq['maxresp'] = r.choice([64, 200, 400])
            steps.append({'bad': rq, 'mut': mutate.gen_spec(r)})
        elif x < 0.10:
            steps.append({'restart': True})
        elif x < 0.16:
            steps.append({'clock': r.choice([1, 1, 2, 61, 3600])})
        elif x < 0.22 and last is not None:
            # request rejected at header level after the version was set
            rq = gen.gen_request(ctx, p_batch=0.0)
            k = r.choice(['future', 'stale', 'async', 'undo', 'badver'])
            if k == 'future':
                rq['ts'] = 500
            elif k == 'stale':
                rq['ts'] = -500
            elif k == 'async':
                rq['async'] = True
            elif k == 'undo':
                rq['cont'] = 3
            else:
                rq['ver'] = r.choice([[3, 0], [1, 9], [0, 0]])
            rq['hdr_reject'] = k
            steps.append(rq)
            last = rq
        else:
            rq = gen.gen_request(
                ctx, weights={'create': 5, 'register': 3, 'keypair': 1,
                              'derive': 1, 'use': 1, 'life': 3, 'read': 2,
                              'attr': 2, 'misc': 1})
            if r.random() < 0.12:
                # a per-request limit that this request's own (small)
                # answer may well respect: it must not outlive the request
                rq['maxresp'] = r.choice([160, 200, 256, 300, 400, 600])
            steps.append(rq)
            last = rq
    probe = gen_probe(ctx, r, last)
    return {'actors': actors, 'policies': policies, 'seed': r.randrange(1 << 30),
            'steps': steps, 'probe': probe}


def stale_placeholder_reachable(probe, fresh_resp):
    """True iff some id-less item of the probe is not preceded, inside the
    probe batch, by an item that succeeded in creating an object."""
    created = False
    for i, op in enumerate(probe['items']):
        if op['op'] in IDLESS_OPS and op.get('uid') is None:
            if not created:
                return True
        if op['op'] in CREATORS and fresh_resp is not None and \
                i < len(fresh_resp.items) and \
                fresh_resp.items[i]['status'] == 0:
            created = True
    return False


def execute(plan):
    if plan.get('kind') == 'concurrent':
        from sim.props import c10
        res = c10.execute(plan)
        probes = dict((p, 0) for p in PROBES)
        probes['concurrent_sessions_plan'] = 1
        for v in res['violations']:
            v['sig'] = {'oracle': 'concurrent-' + v['sig']['oracle'],
                        'differs': v['sig'].get('differs'),
                        'stale_placeholder_reachable': None}
        res['probes'] = probes
        res['nontrivial'] = False
        res['sample'] = {'kind': 'concurrent',
                         'clients': res['sample'].get('clients')}
        return res
    probes = dict((p, 0) for p in PROBES)
    viol = []
    states = []
    A = world.World(plan['actors'], plan.get('policies'), seed=plan['seed'])
    B = None
    try:
        created_ok = False
        last = None
        for st in plan['steps']:
            if 'restart' in st:
                A.restart()
                probes['restart_in_prefix'] += 1
                continue
            if 'clock' in st:
                A.clock.advance(st['clock'])
                A.event('clock', dt=st['clock'])
                continue
            if 'bad' in st:
                from sim import mutate, reqs
                f = reqs.build_request(st['bad'], A.resolve,
                                       now=A.clock.now)
                try:
                    f = mutate.apply(f, st['mut'])
                except Exception:
                    pass
                A.send_raw(st['bad'].get('actor', 0), f)
                conn = A.session(st['bad'].get('actor', 0))[1]
                conn.inbox = bytearray()
                probes['prefix_corrupted_frame'] += 1
                continue
            resp = A.request(st)
            last = st
            if st.get('hdr_reject'):
                probes['prefix_header_reject'] += 1
            if resp is not None:
                for op, it in zip(st['items'], resp.items):
                    if op['op'] in CREATORS and it['status'] == 0:
                        created_ok = True
                if len(st['items']) > 1 and any(
                        it['status'] != 0 for it in resp.items):
                    probes['prefix_failed_batch'] += 1
            states.append(kernel.digest_of(A.dump()))
        probe = plan['probe']
        # fresh engine over a copy of the database
        dirb = A.dir + '-fresh'
        os.makedirs(dirb, exist_ok=True)
        shutil.copy(A.db, os.path.join(dirb, 'kmip.db'))
        B = world.World(plan['actors'], plan.get('policies'), workdir=dirb,
                        reset=False)
        B.labels = dict(A.labels)
        pseed = plan['seed'] ^ 0x5a5a5a
        kernel.OS.rng = kernel.SimRng(pseed)
        ra = A.request(copy.deepcopy(probe))
        frames_a = A.last['sent']
        da = A.dump()
        kernel.OS.rng = kernel.SimRng(pseed)
        rb = B.request(copy.deepcopy(probe), record=False)
        frames_b = B.last['sent']
        db = B.dump()
        idless = any(op['op'] in IDLESS_OPS and op.get('uid') is None
                     for op in probe['items'])
        vswitch = last is not None and list(probe['ver']) != list(last['ver'])
        iswitch = last is not None and probe['actor'] != last['actor']
        if any(st.get('maxresp') and st.get('actor') == probe['actor']
               for st in plan['steps'] if isinstance(st, dict)):
            probes['probe_after_response_size_limit_on_same_session'] += 1
        probes['probe_idless'] += int(idless)
        probes['probe_version_switch'] += int(vswitch)
        probes['probe_identity_switch'] += int(iswitch)
        diff = []
        if frames_a != frames_b or A.last['escape'] != B.last['escape']:
            diff.append('response')
        if da != db:
            diff.append('store')
        if diff:
            pa = None if ra is None else ra.plain()
            pb = None if rb is None else rb.plain()
            viol.append({
                'sig': {'oracle': 'fresh-engine-differential',
                        'differs': '+'.join(diff),
                        'stale_placeholder_reachable':
                            stale_placeholder_reachable(probe, rb)},
                'detail': {'probe': probe, 'live': pa, 'fresh': pb,
                           'store_differs': da != db}})
        nontrivial = created_ok and (idless or vswitch or iswitch)
        digest = kernel.digest_of([A.trace, frames_a])
        return {
            'violations': viol, 'nontrivial': nontrivial, 'key': digest,
            'digest': digest, 'faults': {'restart_clean': A.restarts},
            'probes': probes, 'states': states,
            'sim_s': A.clock.covered(), 'steps': A.requests + 1,
            'sample': {'prefix_ops': [[o['op'] for o in s['items']]
                                      if 'items' in s else
                                      ('bad' if 'bad' in s else s)
                                      for s in plan['steps']],
                       'probe': [dict((k, v) for k, v in o.items()
                                      if k in ('op', 'uid'))
                                 for o in probe['items']],
                       'probe_ver': probe['ver'],
                       'probe_actor': probe['actor']},
        }
    finally:
        A.close()
        if B is not None:
            B.close()


SHRINK_LISTS = ['steps', 'preempts', 'tiebreaks']


def simplify(plan):
    """Candidate simplifications after step removal."""
    if plan.get('kind') == 'concurrent':
        return
    p = plan['probe']
    if len(p['items']) > 1:
        for i in range(len(p['items'])):
            c = copy.deepcopy(plan)
            del c['probe']['items'][i]
            yield c
    for i, st in enumerate(plan['steps']):
        if 'items' in st and len(st['items']) > 1:
            for j in range(len(st['items'])):
                c = copy.deepcopy(plan)
                del c['steps'][i]['items'][j]
                yield c
    if len(plan['actors']) > 1:
        used = set([plan['probe']['actor']] + [s['actor'] for s in
                                               plan['steps'] if 'actor' in s])
        if max(used) < len(plan['actors']) - 1:
            c = copy.deepcopy(plan)
            c['actors'] = c['actors'][:max(used) + 1]
            yield c
    for i, st in enumerate(plan['steps']):
        if 'items' not in st:
            continue
        for j, op in enumerate(st['items']):
            at = op.get('attrs')
            if at and len(at) > 3:
                keep = [a for a in at if a['n'] in (
                    'Cryptographic Algorithm', 'Cryptographic Length',
                    'Cryptographic Usage Mask')]
                if len(keep) < len(at):
                    c = copy.deepcopy(plan)
                    c['steps'][i]['items'][j]['attrs'] = keep
                    yield c


def directed(tier):
    """Regression for the repaired placeholder carry-over (6259624)."""
    mk = {'op': 'Create', 'label': 'k', 'otype': 'SymmetricKey', 'attrs': [
        gen.A('Cryptographic Algorithm', 3),
        gen.A('Cryptographic Length', 128),
        gen.A('Cryptographic Usage Mask', 12)]}
    out = []
    for name in ('Get', 'Destroy', 'GetAttributes'):
        out.append({'actors': [{'cn': 'user0'}, {'cn': 'user1'}],
                    'policies': None, 'seed': 7,
                    'steps': [{'actor': 0, 'ver': [1, 2], 'items': [mk]}],
                    'probe': {'actor': 0, 'ver': [1, 2],
                              'items': [{'op': name}]}})
    return out
