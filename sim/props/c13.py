"""
C13 — well-formed requests never hit the server's internal-error path.

Systematic sweep of the grid operation x stored object type x lifecycle
state x KMIP version x parameter class (valid, optional absent,
inapplicable to the type, unknown / unsupported attribute, unsupported
algorithm or mode, out-of-range values) plus random well-typed requests
over random stores. Fault-free only (under disk faults General Failure is
the legitimate answer). Monitor: no batch item with reason General Failure,
no 'Error occurred while processing operation.' / 'An unexpected error
occurred' log record, no exception leaving the message loop for a request
the real decoder accepted.
"""
import copy

from sim import gen, kernel, reqs, world
from sim.props.c12 import decodable

ID = 'C13'
LEVEL = 'exploration'
OPS = ['Create', 'CreateKeyPair', 'Register', 'DeriveKey', 'Locate', 'Get',
       'GetAttributes', 'GetAttributeList', 'Activate', 'Revoke', 'Destroy',
       'Query', 'DiscoverVersions', 'Encrypt', 'Decrypt', 'Sign',
       'SignatureVerify', 'MAC', 'SetAttribute', 'ModifyAttribute',
       'DeleteAttribute', 'Unsupported']
STATES = ['PreActive', 'Active', 'Deactivated', 'Compromised']
NPARAM = 6
ATTR_SWEEP = 3 * 7 * 6     # operation x object type x version
PARAM_SWEEP = 7 * 3        # parameter family x version
GRID = len(OPS) * len(gen.OTYPES) * len(STATES) * len(gen.VERSIONS) * NPARAM
COUNT = {'quick': 5200, 'thorough': GRID + 30000}
SWEEP = {'quick': 4200, 'thorough': GRID}
BUDGET_S = {'quick': 80, 'thorough': 840}
DETERMINISM = {'quick': 20, 'thorough': 100}
CHUNK = 24
EXHAUSTIVE = {'quick': False, 'thorough': False}
RULE = ('grid cell = (operation of 22, stored object type of 7, state of 4, '
        'KMIP version of 6, parameter class of 6) = %d cells: thorough '
        'sweeps all of them, quick a seeded slice of %d; plus, complete in '
        'every run: the attribute table (every attribute name x Set / Modify '
        '/ Delete x object type x version), the enumerations of the '
        'cryptographic parameters, an identifier sweep (21 shapes x every '
        'operation that names an object) and two batches of combinations '
        '(keying object kind x derivation method x parameter subsets; '
        'cipher x mode x tag length; wrapping target x specification '
        'shapes; current / new attribute pairs; key blocks lacking optional '
        'fields; dates, enumerations, paging numbers and name lists at the '
        'edges of their types; every key format type on every key kind); '
        'plus random '
        'well-typed request histories over random stores. Non-trivial: the '
        'handler met an object type it was not written for, or an '
        'attribute outside the rule table, or an unsupported parameter. '
        'Distinct = (cell | history digest).' % (GRID, SWEEP['quick']))
PROBES = ['attribute_table_sweep', 'cell_valid', 'cell_foreign_type', 'cell_unknown_attribute',
          'cell_unsupported_parameter', 'cell_out_of_range',
          'request_not_decodable', 'success', 'specific_error']
REAL_VS_STUB = {
    'real': ['KmipEngine handlers', 'CryptographyEngine', 'AttributePolicy',
             'KmipSession', 'TTLV decoder', 'SQLAlchemy+SQLite'],
    'stub': ['TLS/clock/entropy/RSA pool as in the inline world'],
}
ASSUMPTIONS = [
    'well-formed = the real decoder accepts the frame; requests it refuses '
    'are counted and skipped (they are answered Invalid Message, see C12)',
]
A = gen.A
NATIVE = {'Encrypt': 'SymmetricKey', 'Decrypt': 'SymmetricKey',
          'Sign': 'PrivateKey', 'SignatureVerify': 'PublicKey',
          'MAC': 'SymmetricKey'}


EC_PRIV = ('308187020100301306072a8648ce3d020106082a8648ce3d030107046d306b02'
           '01010420cbc9c9567b852c9c314d1fedc03def64de9f71d34f8e9ce5b9cb19de'
           'bab103d7a14403420004f5c0398e92eb7df9ec6a1916408552138ca88c29ef63'
           '473e6f22bf88c1fb0022def9d7270b13d433ca42d68dc40794207a659898fa82'
           'b5137b6d6700cd3f7a00')
EC_PUB = ('3059301306072a8648ce3d020106082a8648ce3d03010703420004f5c0398e92eb'
          '7df9ec6a1916408552138ca88c29ef63473e6f22bf88c1fb0022def9d7270b13d4'
          '33ca42d68dc40794207a659898fa82b5137b6d6700cd3f7a00')
IDENTIFIER_FORMS = [
    str(2 ** 63 - 1), str(2 ** 63), str(2 ** 64), str(-2 ** 63),
    str(-2 ** 63 - 1), str(2 ** 128), '-1', '0', '00', '1e3', '0x10',
    '1.0', ' 1', '1 ', u'\uff11', '', 'no-such-object', 'a' * 300,
    "1' OR '1'='1", '%s', u'cl\u00e9']


def cell_of(index):
    i = index
    i, p = divmod(i, NPARAM)
    i, v = divmod(i, len(gen.VERSIONS))
    i, s = divmod(i, len(STATES))
    i, o = divmod(i, len(gen.OTYPES))
    i, op = divmod(i, len(OPS))
    return OPS[op], gen.OTYPES[o], STATES[s], gen.VERSIONS[v], p


def variant(name, otype, ver, p, r, ctx):
    """The request item for a grid cell. p: 0 valid, 1 optional absent,
    2 inapplicable to the type, 3 unknown/unsupported attribute, 4
    unsupported algorithm / mode / parameter, 5 out-of-range values."""
    ref = '@x'
    v2 = ver >= (2, 0)
    if name == 'Create':
        at = [A('Cryptographic Algorithm', 3), A('Cryptographic Length', 256),
              A('Cryptographic Usage Mask', 12)]
        ot = 'SymmetricKey'
        if p == 1:
            at = at[:2]
        elif p == 2:
            ot = otype
        elif p == 3:
            at.append(A(r.choice(['x-custom', 'Contact Information',
                                  'Lease Time', 'Fresh']), 'v', k='text'))
        elif p == 4:
            at[0] = A('Cryptographic Algorithm', r.choice([4, 7, 0x16, 1]))
        elif p == 5:
            at[1] = A('Cryptographic Length', r.choice([0, -8, 7, 10 ** 6]))
        if p in (0, 4, 5) and r.random() < 0.6:
            # the product algorithm x length: every symmetric algorithm of
            # the enumeration with the lengths clients commonly send for
            # some algorithm (parity-less DES sizes included)
            at[0] = A('Cryptographic Algorithm', r.choice(
                [1, 2, 3, 0x10, 0x11, 0x12, 0x13, 0x16, 0x0F, 0x17]
                if p != 4 else list(range(1, 0x2F))))
            at[1] = A('Cryptographic Length', r.choice(
                [40, 56, 64, 80, 112, 128, 160, 168, 192, 224, 256, 384, 448,
                 512, 1024]))
        return {'op': 'Create', 'otype': ot, 'attrs': at}
    if name == 'CreateKeyPair':
        common = [A('Cryptographic Algorithm', 4),
                  A('Cryptographic Length', 1024)]
        priv = [A('Cryptographic Usage Mask', 1)]
        pub = [A('Cryptographic Usage Mask', 2)]
        if p == 1:
            priv = None
        elif p == 2:
            pub = [A('Cryptographic Usage Mask', 2),
                   A('Cryptographic Algorithm', 3)]
        elif p == 3:
            common.append(A('x-custom', 'v', k='text'))
        elif p == 4:
            common[0] = A('Cryptographic Algorithm', r.choice([5, 6, 3]))
        elif p == 5:
            common[1] = A('Cryptographic Length', r.choice([0, 7, 100]))
        return {'op': 'CreateKeyPair', 'common': common, 'private': priv,
                'public': pub}
    if name == 'Register':
        op = gen.gen_register(ctx, ver, 0, otype)
        op.pop('label')
        ctx.objs.pop()
        if p == 1:
            op['attrs'] = []
        elif p == 2:
            # object of another type than announced
            other = r.choice([o for o in gen.OTYPES if o != otype])
            op['obj_type'] = other
            op['obj'] = gen.gen_object(ctx, other)
        elif p == 3:
            op['attrs'].append(A(r.choice(['x-custom', 'Link', 'Digest',
                                           'Contact Information']),
                                 'v', k='text'))
        elif p == 4 and 'alg' in op['obj']:
            op['obj']['alg'] = r.choice([0x16, 7, 5])
            if r.random() < 0.5:
                op['obj']['wrap'] = {'method': 1, 'enc': {'uid': '1'}}
        elif p == 5:
            if 'len' in op['obj']:
                op['obj']['len'] = r.choice([0, 8, 129, -1])
            else:
                op['obj']['value'] = ''
        return op
    if name == 'DeriveKey':
        op = {'op': 'DeriveKey', 'otype': 'SymmetricKey', 'uids': [ref],
              'method': 3, 'params': {'cp': {'hash': 6}, 'data': 'aabbccdd'},
              'attrs': [A('Cryptographic Length', 128),
                        A('Cryptographic Algorithm', 3),
                        A('Cryptographic Usage Mask', 12)]}
        if p == 1:
            op['params'] = {'cp': {'hash': 6}}
        elif p == 2:
            op['otype'] = r.choice(['SecretData', 'PublicKey',
                                    'Certificate'])
        elif p == 3:
            op['attrs'].append(A('x-custom', 'v', k='text'))
        elif p == 4:
            op['method'] = r.choice([1, 2, 4, 5, 6, 7])
            op['params'] = r.choice([
                {'cp': {}}, {'cp': {'hash': 1}}, {'cp': {'alg': 3}},
                {'cp': {'hash': 6}, 'salt': '00', 'iter': 0},
                {'cp': {'alg': 3, 'mode': 1, 'padding': 3},
                 'data': 'aabb', 'iv': '00' * 16},
                {}])
        elif p == 5:
            op['attrs'][0] = A('Cryptographic Length', r.choice(
                [0, 7, 10 ** 5, -8]))
        return op
    if name == 'Locate':
        fl = [A('Object Type', gen_ot_num(otype))]
        if p == 1:
            fl = []
        elif p == 2:
            fl = [A('Cryptographic Algorithm', 3), A('State', 2),
                  A('Certificate Type', 1), A('Cryptographic Length', 128)]
            r.shuffle(fl)
            fl = fl[:r.choice([1, 2, 3])]
        elif p == 3:
            fl = [A(r.choice(['x-custom', 'Contact Information', 'Link',
                              'Digest', 'Activation Date']), 'v', k='text')]
        elif p == 4:
            fl = [A('Initial Date', 1600000000, k='date'),
                  A('Initial Date', 1600000005, k='date'),
                  A('Initial Date', 1600000009, k='date')]
        op = {'op': 'Locate', 'attrs': fl}
        if p == 5:
            op['max'] = r.choice([-1, 0, 2 ** 31 - 1])
            if ver >= (1, 3):
                op['offset'] = r.choice([-1, 2 ** 31 - 1])
        return op
    if name == 'Get':
        op = {'op': 'Get', 'uid': ref}
        if p == 1:
            pass
        elif p == 0:
            op['kft'] = {'SymmetricKey': 1, 'PublicKey': 3, 'PrivateKey': 4,
                         'SplitKey': 1, 'SecretData': 2}.get(otype)
        elif p == 2:
            op['kft'] = r.choice([1, 3, 4, 7])
        elif p == 3:
            op['wrapspec'] = {'method': 1, 'enc': {
                'uid': '@w', 'cp': {'mode': 0xD}}, 'encoding': 1,
                'attr_names': ['x-custom']}
        elif p == 4:
            op['wrapspec'] = r.choice([
                {'method': 1, 'enc': {'uid': '@w'}},
                {'method': 1, 'enc': {'uid': '@w', 'cp': {'mode': 1}},
                 'encoding': 1},
                {'method': 2, 'mac': {'uid': '@w'}},
                {'method': 1, 'enc': {'uid': '@w', 'cp': {'mode': 0xD}},
                 'encoding': 2},
                {'method': 1},
                {'method': 1, 'enc': {'uid': ref, 'cp': {'mode': 0xD}},
                 'encoding': 1}])
        else:
            op['kct'] = r.choice([1, 2])
        return op
    if name == 'GetAttributes':
        op = {'op': 'GetAttributes', 'uid': ref}
        if p == 0:
            op['names'] = ['State', 'Name', 'Object Type']
        elif p == 2:
            op['names'] = ['Certificate Type', 'Cryptographic Length',
                           'State']
        elif p == 3:
            op['names'] = ['x-custom', 'Contact Information']
        elif p == 4:
            op['names'] = ['Digest', 'Link', 'Usage Limits', 'Lease Time',
                           'Cryptographic Parameters']
        elif p == 5:
            op['names'] = ['State'] * 3
        return op
    if name in ('GetAttributeList', 'Activate', 'Destroy'):
        return {'op': name, 'uid': ref}
    if name == 'Revoke':
        op = {'op': 'Revoke', 'uid': ref, 'code': r.choice([1, 2, 3, 5])}
        if p == 1:
            op['msg'] = None
        elif p == 3:
            op['msg'] = 'because'
        elif p == 4:
            op['code'] = r.choice([7, 0x80000001 & 0x7fffffff])
        elif p == 5:
            op['date'] = r.choice([0, -1, 2 ** 40])
        return op
    if name == 'Query':
        return {'op': 'Query', 'funcs': {
            0: [1, 2, 3], 1: [1], 2: [4, 5, 6], 3: [1, 1, 1],
            4: [3], 5: [6, 5, 4, 3, 2, 1]}[p]}
    if name == 'DiscoverVersions':
        return {'op': 'DiscoverVersions', 'versions': {
            0: [], 1: [[1, 2]], 2: [[9, 9]], 3: [[1, 0], [1, 0]],
            4: [[0, 0], [2, 0], [1, 4]], 5: [[-1, -1]]}[p]}
    if name in ('Encrypt', 'Decrypt'):
        op = {'op': name, 'uid': ref, 'data': '00' * 16,
              'cp': {'alg': 3, 'mode': 1, 'padding': 3}, 'iv': '11' * 16}
        if p == 1:
            op.pop('iv')
            if r.random() < 0.5:
                op['cp'] = None
        elif p == 3:
            op['cp'] = {'mode': 1}
        elif p == 4:
            op['cp'] = r.choice([
                {'alg': 4, 'padding': 2, 'hash': 6},
                {'alg': 3, 'mode': 9, 'tag_len': 16},
                {'alg': 3, 'mode': 8}, {'alg': 0x16},
                {'alg': 3, 'mode': 1, 'padding': 8},
                {'alg': 2, 'mode': 2, 'padding': 3},
                {'alg': 3, 'mode': 6}, {'alg': 7}])
        elif p == 5:
            op['data'] = r.choice(['', '00', '00' * 15])
            op['iv'] = r.choice(['', '00', '11' * 17])
        return op
    if name == 'Sign':
        op = {'op': 'Sign', 'uid': ref, 'data': '0a0b',
              'cp': {'alg': 4, 'hash': 6, 'padding': 8}}
        if p == 1:
            op['cp'] = None
        elif p == 3:
            op['cp'] = {'dsa': 5}
        elif p == 4:
            op['cp'] = r.choice([{'alg': 4, 'hash': 6, 'padding': 2},
                                 {'alg': 5, 'hash': 6, 'padding': 8},
                                 {'alg': 4, 'padding': 8},
                                 {'alg': 4, 'hash': 1, 'padding': 0xA},
                                 {'dsa': 0x10}, {}])
        elif p == 5:
            op['data'] = ''
        return op
    if name == 'SignatureVerify':
        op = {'op': 'SignatureVerify', 'uid': ref, 'data': '0a0b',
              'sig': '11' * 128, 'cp': {'alg': 4, 'hash': 6, 'padding': 8}}
        if p == 1:
            op['cp'] = None
        elif p == 3:
            op.pop('sig')
        elif p == 4:
            op['cp'] = r.choice([{'alg': 4, 'hash': 6, 'padding': 2},
                                 {'alg': 3}, {'alg': 4, 'padding': 8}, {}])
        elif p == 5:
            op['sig'] = r.choice(['', '11'])
        return op
    if name == 'MAC':
        op = {'op': 'MAC', 'uid': ref, 'data': '0a0b', 'cp': {'alg': 9}}
        if p == 1:
            op['cp'] = None
        elif p == 3:
            op['cp'] = {'hash': 6}
        elif p == 4:
            op['cp'] = {'alg': r.choice([4, 0x16, 3, 2, 0xC])}
        elif p == 5:
            op['data'] = None
        return op
    multi = ['Name', 'Object Group', 'Application Specific Information']
    if name == 'SetAttribute':
        n = {0: 'Sensitive', 1: 'Sensitive', 2: 'Certificate Type',
             3: r.choice(['Contact Information', 'Activation Date']),
             4: r.choice(multi), 5: r.choice(['State', 'Unique Identifier',
                                              'Operation Policy Name'])}[p]
        if r.random() < 0.4:
            return {'op': 'SetAttribute', 'uid': ref, 'new': any_attribute(r)}
        return {'op': 'SetAttribute', 'uid': ref, 'new': attr_for(n, r)}
    if name == 'ModifyAttribute':
        n = {0: r.choice(multi), 1: 'Sensitive', 2: 'Certificate Type',
             3: r.choice(['x-custom', 'Contact Information', 'Link',
                          'Cryptographic Parameters', 'Activation Date']),
             4: r.choice(['Digest', 'Usage Limits', 'Lease Time']),
             5: r.choice(multi)}[p]
        if r.random() < 0.4:
            # any attribute of the table on any object type
            a = any_attribute(r)
            if v2:
                op = {'op': 'ModifyAttribute', 'uid': ref, 'new': a}
                if r.random() < 0.5:
                    op['cur'] = dict(a)
                return op
            a['i'] = r.choice([None, 0, 0, 1])
            if a['i'] is None:
                a.pop('i')
            return {'op': 'ModifyAttribute', 'uid': ref, 'attr': a}
        if v2:
            op = {'op': 'ModifyAttribute', 'uid': ref, 'new': attr_for(n, r)}
            if p in (0, 5):
                op['cur'] = attr_for(n, r, existing=p == 0)
            if p == 5 and n in multi and r.random() < 0.5:
                # rename the second instance to the first one's value
                op['cur'] = second_instance(n)
                op['new'] = attr_for(n, r, existing=True)
            return op
        a = attr_for(n, r)
        if p == 5 and r.random() < 0.5:
            # rename instance 1 to the value instance 0 already has
            a = attr_for(n, r, existing=True)
            a['i'] = 1
        elif p == 5:
            a['i'] = r.choice([-1, 7, 2 ** 31 - 1])
        elif p == 0:
            a['i'] = 0
        return {'op': 'ModifyAttribute', 'uid': ref, 'attr': a}
    if name == 'DeleteAttribute':
        n = {0: r.choice(multi), 1: r.choice(multi), 2: 'Certificate Type',
             3: r.choice(['x-custom', 'Contact Information', 'Link',
                          'Cryptographic Parameters', 'Usage Limits']),
             4: r.choice(['Sensitive', 'State', 'Digest']),
             5: r.choice(multi)}[p]
        if r.random() < 0.4:
            a = any_attribute(r)
            if v2:
                if r.random() < 0.5:
                    return {'op': 'DeleteAttribute', 'uid': ref, 'cur': a}
                return {'op': 'DeleteAttribute', 'uid': ref, 'ref': a['n']}
            op = {'op': 'DeleteAttribute', 'uid': ref, 'name': a['n']}
            if r.random() < 0.5:
                op['index'] = r.choice([0, 1])
            return op
        if v2:
            op = {'op': 'DeleteAttribute', 'uid': ref}
            if p in (0, 5):
                op['cur'] = attr_for(n, r, existing=p == 0)
            else:
                op['ref'] = n
            return op
        op = {'op': 'DeleteAttribute', 'uid': ref, 'name': n}
        if p == 0:
            op['index'] = 0
        elif p == 5:
            op['index'] = r.choice([-1, 7, 2 ** 31 - 1])
        return op
    # operations the codec knows but the engine does not serve
    return {'op': r.choice(['Rekey', 'Check', 'ObtainLease',
                            'GetUsageAllocation', 'Archive', 'Recover',
                            'Cancel', 'Poll']), 'uid': ref}


def gen_ot_num(otype):
    return {'Certificate': 1, 'SymmetricKey': 2, 'PublicKey': 3,
            'PrivateKey': 4, 'SplitKey': 5, 'SecretData': 7,
            'OpaqueData': 8}[otype]


def second_instance(n):
    if n == 'Name':
        return A(n, ['xname2', 1])
    if n == 'Object Group':
        return A(n, 'xgroup2')
    return A(n, ['xns2', 'xdata2'])


SIMPLE_KINDS = {'text': 'text', 'enum': 1, 'int': 12, 'bool': True,
                'date': 1600000000, 'interval': 60, 'name': ['n', 1],
                'asi': ['ns', 'd'], 'cp': {'mode': 1}, 'link': [0x101, '1']}


def any_attribute(r):
    """An attribute of the whole attribute table (every name the request
    language can encode), with a value of its declared type."""
    from sim import reqs
    names = sorted(n for n, (tag, kind) in reqs.ATTRS.items()
                   if kind in SIMPLE_KINDS)
    n = r.choice(names)
    return A(n, SIMPLE_KINDS[reqs.ATTRS[n][1]])


def attr_for(n, r, existing=False):
    if n == 'Name':
        return A(n, ['xname' if existing else 'new-%d' % r.randrange(99), 1])
    if n == 'Object Group':
        return A(n, 'xgroup' if existing else 'g%d' % r.randrange(9))
    if n == 'Application Specific Information':
        return A(n, ['xns', 'xdata'] if existing else ['ns', 'd%d' %
                                                       r.randrange(9)])
    if n == 'Sensitive':
        return A(n, True)
    if n in ('Certificate Type', 'State'):
        return A(n, 1)
    if n in ('Activation Date',):
        return A(n, 1600000000, k='date')
    if n == 'Lease Time':
        return A(n, 60, k='interval')
    if n == 'Cryptographic Parameters':
        return A(n, {'mode': 1}, k='cp')
    if n == 'Link':
        return A(n, [0x101, '1'], k='link')
    return A(n, 'text', k='text')


def setup_steps(otype, state, r, ctx):
    reg = gen.gen_register(ctx, (1, 2), 0, otype, want_mask=gen.ALL_MASK)
    reg['label'] = 'x'
    reg['attrs'] = [a for a in reg['attrs'] if a['n'] not in (
        'Name', 'Object Group', 'Application Specific Information')] + [
        A('Name', ['xname', 1], 0), A('Name', ['xname2', 1], 1),
        A('Object Group', 'xgroup', 0), A('Object Group', 'xgroup2', 1),
        A('Application Specific Information', ['xns', 'xdata'], 0),
        A('Application Specific Information', ['xns2', 'xdata2'], 1)]
    if otype != 'OpaqueData':
        reg['attrs'] = [a for a in reg['attrs']
                        if a['n'] != 'Cryptographic Usage Mask'] + [
            A('Cryptographic Usage Mask', gen.ALL_MASK)]
    wk = {'op': 'Register', 'label': 'w', 'otype': 'SymmetricKey',
          'attrs': [A('Cryptographic Usage Mask', 0x10)],
          'obj': {'kft': 1, 'value': '55' * 16, 'alg': 3, 'len': 128}}
    steps = [{'actor': 0, 'ver': [1, 2], 'items': [reg]},
             {'actor': 0, 'ver': [1, 2], 'items': [wk]},
             {'actor': 0, 'ver': [1, 2], 'items': [
                 {'op': 'Activate', 'uid': '@w'}]}]
    if state != 'PreActive':
        steps.append({'actor': 0, 'ver': [1, 2], 'items': [
            {'op': 'Activate', 'uid': '@x'}]})
    if state == 'Deactivated':
        steps.append({'actor': 0, 'ver': [1, 2], 'items': [
            {'op': 'Revoke', 'uid': '@x', 'code': 1}]})
    if state == 'Compromised':
        steps.append({'actor': 0, 'ver': [1, 2], 'items': [
            {'op': 'Revoke', 'uid': '@x', 'code': 2}]})
    return steps


def generate(rng, tier, index):
    r = rng
    if index < SWEEP[tier]:
        ci = index
        if tier == 'quick':
            ci = (index * 7919 + r.randrange(GRID)) % GRID
        name, otype, state, ver, p = cell_of(ci)
        ctx = gen.Ctx(r, nactors=1)
        if name == 'SetAttribute' and ver < (2, 0) and r.random() < 0.8:
            ver = (2, 0)
        steps = setup_steps(otype, state, r, ctx)
        op = variant(name, otype, ver, p, r, ctx)
        steps.append({'actor': 0, 'ver': list(ver), 'items': [op],
                      'probe': True})
        return {'actors': [{'cn': 'owner'}], 'seed': r.randrange(1 << 30),
                'steps': steps, 'cell': [name, otype, state, list(ver), p]}
    if SWEEP[tier] + ATTR_SWEEP <= index < SWEEP[tier] + ATTR_SWEEP + \
            PARAM_SWEEP:
        # the enumerations of the cryptographic parameters, complete, on a
        # usable (Active, fully masked) object of the right kind
        j = index - SWEEP[tier] - ATTR_SWEEP
        ver = [(1, 2), (1, 4), (2, 0)][j % 3]
        kind = j // 3
        ctx = gen.Ctx(r, nactors=1)
        probes_ = []
        if kind == 0:
            otype = 'PrivateKey'
            for d in range(1, 20):
                probes_.append({'op': 'Sign', 'uid': '@x', 'data': '0a0b',
                                'cp': {'dsa': d}})
            for h in range(1, 18):
                for pad in (8, 10, 1, 3):
                    probes_.append({'op': 'Sign', 'uid': '@x',
                                    'data': '0a0b', 'cp': {
                                        'alg': 4, 'hash': h,
                                        'padding': pad}})
        elif kind == 1:
            otype = 'PublicKey'
            for d in range(1, 20):
                probes_.append({'op': 'SignatureVerify', 'uid': '@x',
                                'data': '0a0b', 'sig': '11' * 128,
                                'cp': {'dsa': d}})
            for h in range(1, 18):
                for pad in (8, 10):
                    probes_.append({'op': 'SignatureVerify', 'uid': '@x',
                                    'data': '0a0b', 'sig': '11' * 128,
                                    'cp': {'alg': 4, 'hash': h,
                                           'padding': pad}})
        elif kind == 2:
            otype = 'SymmetricKey'
            for name in ('Encrypt', 'Decrypt'):
                for mode in range(1, 19):
                    for pad in (None, 3):
                        cp = {'alg': 3, 'mode': mode}
                        if pad:
                            cp['padding'] = pad
                        probes_.append({'op': name, 'uid': '@x',
                                        'data': '00' * 16, 'cp': cp,
                                        'iv': '01' * r.choice([16, 12])})
                for pad in range(1, 11):
                    probes_.append({'op': name, 'uid': '@x',
                                    'data': '00' * 16, 'iv': '01' * 16,
                                    'cp': {'alg': 3, 'mode': 1,
                                           'padding': pad}})
        elif kind == 6:
            # second batch of combinations: values at the edges of their
            # type in positions the random histories fill with ordinary
            # ones (dates, enumerations outside their table, empty texts,
            # paging numbers, key format conversions, lists of names)
            otype = 'SymmetricKey'
            extra_setup = [
                {'op': 'Register', 'label': 'priv', 'otype': 'PrivateKey',
                 'attrs': [A('Cryptographic Usage Mask', 1)],
                 'obj': gen.gen_object(ctx, 'PrivateKey')},
                {'op': 'Register', 'label': 'cert', 'otype': 'Certificate',
                 'attrs': [A('Cryptographic Usage Mask', 2)],
                 'obj': gen.gen_object(ctx, 'Certificate')},
                {'op': 'Register', 'label': 'spl', 'otype': 'SplitKey',
                 'attrs': [A('Cryptographic Usage Mask', 12)],
                 'obj': gen.gen_object(ctx, 'SplitKey')}]
            # id-less items after every kind of item that may leave an
            # identifier behind for them (Locate with one match included)
            for first in ({'op': 'Locate', 'attrs': [], 'max': 1},
                          {'op': 'Locate', 'attrs': [A('Object Type', 2)],
                           'max': 1},
                          {'op': 'Get', 'uid': '@x'},
                          {'op': 'GetAttributes', 'uid': '@x'}):
                for nm in ('Get', 'GetAttributes', 'GetAttributeList',
                           'Activate', 'Revoke'):
                    second = {'op': nm}
                    if nm == 'Revoke':
                        second['code'] = 1
                    probes_.append([dict(first), second])
            # key bytes are free-form: a symmetric key object may hold the
            # DER of an RSA or EC key, a private key object an EC key, and
            # the request's parameters may say RSA
            rpub, rpriv = gen.rsa_values(0)
            for lab, val in (('s_rpub', rpub), ('s_rpriv', rpriv),
                             ('s_ecpub', EC_PUB), ('s_ecpriv', EC_PRIV)):
                extra_setup.append({
                    'op': 'Register', 'label': lab, 'otype': 'SymmetricKey',
                    'attrs': [A('Cryptographic Usage Mask', 12)],
                    'obj': {'kft': 1, 'value': val, 'alg': 3,
                            'len': 8 * (len(val) // 2)}})
                extra_setup.append({'op': 'Activate', 'uid': '@' + lab})
            extra_setup.append({
                'op': 'Register', 'label': 'p_ec', 'otype': 'PrivateKey',
                'attrs': [A('Cryptographic Usage Mask', 1)],
                'obj': {'kft': 4, 'value': EC_PRIV, 'alg': 6, 'len': 256}})
            extra_setup.append({'op': 'Activate', 'uid': '@p_ec'})
            for lab in ('s_rpub', 's_rpriv', 's_ecpub', 's_ecpriv', 'x'):
                for name in ('Encrypt', 'Decrypt'):
                    for n in (0, 10, 128, 1000):
                        for pad in (8, 1, None):
                            cp = {'alg': 4, 'hash': 6}
                            if pad:
                                cp['padding'] = pad
                            probes_.append({'op': name, 'uid': '@' + lab,
                                            'data': '2a' * n, 'cp': cp})
            for cp in ({'alg': 4, 'hash': 6, 'padding': 8},
                       {'alg': 4, 'hash': 6, 'padding': 10},
                       {'dsa': 5, 'padding': 10}, {'dsa': 5, 'padding': 8},
                       {'alg': 6, 'hash': 6}, {'dsa': 0xF}):
                probes_.append({'op': 'Sign', 'uid': '@p_ec',
                                'data': '0a0b', 'cp': cp})
            # attributes the policy table calls applicable to certificates
            for a_ in (A('Cryptographic Algorithm', 4),
                       A('Cryptographic Length', 2048)):
                probes_.append({'op': 'Register', 'otype': 'Certificate',
                                'attrs': [a_],
                                'obj': gen.gen_object(ctx, 'Certificate')})
            for d in (0, 1, -1, 2 ** 31, 2 ** 62, 2 ** 63 - 1, -2 ** 63):
                for code in (1, 2, 3, 7):
                    probes_.append({'op': 'Revoke', 'uid': '@x',
                                    'code': code, 'date': d, 'msg': ''})
            for code in (0, 8, 0x80000000, 2 ** 31 - 1):
                probes_.append({'op': 'Revoke', 'uid': '@x', 'code': code})
            for f in ([A('Name', ['', 1])], [A('Name', ['x' * 4000, 1])],
                      [A('Object Group', '')],
                      [A('Application Specific Information', ['', ''])],
                      [A('State', 0)], [A('State', 9)],
                      [A('State', 2 ** 31 - 1)], [A('Object Type', 0)],
                      [A('Object Type', 0x7FFFFFFF)],
                      [A('Cryptographic Algorithm', 0)],
                      [A('Cryptographic Algorithm', 0x7FFFFFFF)],
                      [A('Cryptographic Length', -1)],
                      [A('Cryptographic Length', 2 ** 31 - 1)],
                      [A('Cryptographic Usage Mask', 0)],
                      [A('Cryptographic Usage Mask', -1)],
                      [A('Cryptographic Usage Mask', 2 ** 31 - 1)],
                      [A('Operation Policy Name', '')],
                      [A('Certificate Type', 0)],
                      [A('Certificate Type', 0x7FFFFFFF)]):
                probes_.append({'op': 'Locate', 'attrs': f})
            for u in IDENTIFIER_FORMS:
                probes_.append({'op': 'Locate', 'attrs': [
                    A('Unique Identifier', u)]})
            for mx in (0, 1, -1, 2 ** 31 - 1, -2 ** 31):
                for off in (None, 0, -1, 2 ** 31 - 1, -2 ** 31):
                    if off is not None and ver < (1, 3):
                        continue
                    probes_.append({'op': 'Locate', 'attrs': [], 'max': mx,
                                    'offset': off})
            for st in (0, 1, 2, 3, 7, -1, 2 ** 31 - 1):
                probes_.append({'op': 'Locate', 'attrs': [], 'storage': st})
            for tgt in ('@x', '@priv', '@cert', '@spl'):
                for kft in list(range(1, 0x17)) + [0, 0x7FFFFFFF]:
                    probes_.append({'op': 'Get', 'uid': tgt, 'kft': kft})
                for kct in (1, 2, 3, 4, 0, 9):
                    probes_.append({'op': 'Get', 'uid': tgt, 'kct': kct})
                for kwt in (1, 2, 0, 9):
                    if ver >= (1, 4):
                        probes_.append({'op': 'Get', 'uid': tgt, 'kwt': kwt})
                for names in ([], [''], ['State', 'State'], ['x-custom'],
                              ['Name'] * 300, ['no such attribute'],
                              [u'\u00e9'], ['State', '', 'Name']):
                    probes_.append({'op': 'GetAttributes', 'uid': tgt,
                                    'names': names})
            for name in ('Encrypt', 'Decrypt'):
                for mode in (1, 2, 6, 9):
                    probes_.append({'op': name, 'uid': '@x', 'data': '',
                                    'iv': '01' * 16, 'cp': {
                                        'alg': 3, 'mode': mode,
                                        'padding': 3, 'tag_len': 16}})
            for ot2 in ('Certificate', 'OpaqueData', 'PrivateKey',
                        'PublicKey', 'SplitKey'):
                probes_.append({'op': 'DeriveKey', 'otype': ot2,
                                'uids': ['@x'], 'method': 2, 'params': {
                                    'cp': {'hash': 6}, 'data': 'aabb'},
                                'attrs': [A('Cryptographic Length', 128),
                                          A('Cryptographic Algorithm', 3),
                                          A('Cryptographic Usage Mask',
                                            12)]})
            for alg in (1, 2, 3, 5, 6, 7, 0x10, 0x7FFFFFFF):
                for ln in (0, 512, 1024):
                    probes_.append({'op': 'CreateKeyPair', 'common': [
                        A('Cryptographic Algorithm', alg),
                        A('Cryptographic Length', ln)],
                        'private': [A('Cryptographic Usage Mask', 1)],
                        'public': [A('Cryptographic Usage Mask', 2)]})
        elif kind == 5:
            # combinations in which each factor alone is handled: keying
            # objects without an algorithm of their own, wrapping of objects
            # without a key block, specifications without parameters,
            # current / new attributes of different kinds, dates at the
            # edge of what the store's date column holds
            otype = 'SymmetricKey'
            extra_setup = [
                {'op': 'Register', 'label': 'sd', 'otype': 'SecretData',
                 'attrs': [A('Cryptographic Usage Mask', 0x200 | 12)],
                 'obj': {'sdtype': 1, 'kft': 2, 'value': '5a' * 16}},
                {'op': 'Activate', 'uid': '@sd'},
                {'op': 'Register', 'label': 'opq', 'otype': 'OpaqueData',
                 'attrs': [], 'obj': {'odtype': 0x80000000,
                                      'value': '6b' * 16}},
                {'op': 'Register', 'label': 'wk5', 'otype': 'SymmetricKey',
                 'attrs': [A('Cryptographic Usage Mask', 0x30)],
                 'obj': {'kft': 1, 'value': '7c' * 16, 'alg': 3,
                         'len': 128}},
                {'op': 'Activate', 'uid': '@wk5'}]
            dk = {'op': 'DeriveKey', 'otype': 'SymmetricKey',
                  'attrs': [A('Cryptographic Length', 128),
                            A('Cryptographic Algorithm', 3),
                            A('Cryptographic Usage Mask', 12)]}
            for base in ('@sd', '@x', '@opq'):
                for m in range(1, 9):
                    for cp in ({}, {'mode': 1}, {'mode': 1, 'padding': 3},
                               {'hash': 6}, {'alg': 3, 'mode': 1}):
                        probes_.append(dict(dk, uids=[base], method=m,
                                            params={'cp': cp, 'data': 'aabb',
                                                    'iv': '01' * 16,
                                                    'salt': 'ccdd',
                                                    'iter': 2}))
            for alg in (3, 0x16, 2):
                for mode in (1, 9, 6):
                    for tl in (None, 16):
                        cp = {'alg': alg, 'mode': mode}
                        if tl:
                            cp['tag_len'] = tl
                        for name in ('Encrypt', 'Decrypt'):
                            probes_.append({'op': name, 'uid': '@x',
                                            'data': '00' * 16,
                                            'iv': '01' * 12, 'cp': cp})
            for tgt in ('@x', '@opq', '@sd', '@wk5'):
                for spec in ({'method': 1, 'enc': {'uid': '@wk5', 'cp': {
                                  'mode': 0xD}}, 'encoding': 1},
                             {'method': 1, 'enc': {'uid': '@wk5'},
                              'encoding': 1},
                             {'method': 1, 'enc': {'uid': '@wk5', 'cp': {
                                 'mode': 0xD}}},
                             {'method': 2, 'mac': {'uid': '@wk5', 'cp': {
                                 'hash': 6}}, 'encoding': 1},
                             {'method': 1, 'enc': {'uid': '@wk5', 'cp': {
                                 'mode': 1}}, 'encoding': 1},
                             {'method': 1, 'enc': {'uid': '@opq', 'cp': {
                                 'mode': 0xD}}, 'encoding': 1}):
                    probes_.append({'op': 'Get', 'uid': tgt,
                                    'wrapspec': spec})
            if ver >= (2, 0):
                pairs = [(A('Name', ['n', 1]), A('Sensitive', True)),
                         (A('Sensitive', False), A('Name', ['m', 1])),
                         (A('Object Group', 'g'), A('Name', ['m', 1])),
                         (A('Name', ['n', 1]), A('Object Group', 'g')),
                         (A('State', 1), A('Name', ['m', 1])),
                         (A('Name', ['', 1]), A('Name', ['m', 1]))]
                for cur, new_ in pairs:
                    probes_.append({'op': 'ModifyAttribute', 'uid': '@x',
                                    'cur': cur, 'new': new_})
                    probes_.append({'op': 'DeleteAttribute', 'uid': '@x',
                                    'cur': cur})
            for drop in ('alg', 'len', 'kft'):
                o = {'kft': 1, 'value': '11' * 16, 'alg': 3, 'len': 128}
                o.pop(drop)
                for ot2 in ('SymmetricKey', 'SplitKey'):
                    o2 = dict(o)
                    if ot2 == 'SplitKey':
                        o2.update({'parts': 3, 'part_id': 1, 'threshold': 2,
                                   'method': 1})
                    probes_.append({'op': 'Register', 'otype': ot2,
                                    'attrs': [A('Cryptographic Usage Mask',
                                                12)], 'obj': o2})
            for d in (0, 1, 2 ** 31, 2 ** 32, 2 ** 55, 2 ** 56, 2 ** 62,
                      2 ** 63 - 1, -1, -2 ** 63):
                probes_.append({'op': 'Locate', 'attrs': [
                    A('Initial Date', d, k='date')]})
                probes_.append({'op': 'Locate', 'attrs': [
                    A('Initial Date', 0, k='date'),
                    A('Initial Date', d, k='date')]})
        elif kind == 4:
            # the Unique Identifier itself: every operation that names an
            # object x identifiers at and beyond the edges of what the
            # store's integer key can hold, and shapes that are no number
            otype = 'SymmetricKey'
            for u in IDENTIFIER_FORMS:
                for name in ('Get', 'GetAttributes', 'GetAttributeList',
                             'Activate', 'Destroy'):
                    probes_.append({'op': name, 'uid': u})
                probes_.append({'op': 'Revoke', 'uid': u, 'code': 1})
                probes_.append({'op': 'Encrypt', 'uid': u, 'data': '00' * 16,
                                'iv': '01' * 16, 'cp': {
                                    'alg': 3, 'mode': 1, 'padding': 3}})
                probes_.append({'op': 'MAC', 'uid': u, 'data': '0a0b',
                                'cp': {'alg': 9}})
                probes_.append({'op': 'Sign', 'uid': u, 'data': '0a0b',
                                'cp': {'alg': 4, 'hash': 6, 'padding': 8}})
                probes_.append({'op': 'DeriveKey', 'otype': 'SymmetricKey',
                                'uids': [u], 'method': 2, 'params': {
                                    'cp': {'hash': 6}, 'data': 'aabb'},
                                'attrs': [A('Cryptographic Length', 128),
                                          A('Cryptographic Algorithm', 3),
                                          A('Cryptographic Usage Mask',
                                            12)]})
                probes_.append({'op': 'Get', 'uid': '@x', 'wrapspec': {
                    'method': 1, 'enc': {'uid': u, 'cp': {'mode': 0xD}},
                    'encoding': 1}})
                if ver >= (2, 0):
                    probes_.append({'op': 'SetAttribute', 'uid': u,
                                    'new': A('Sensitive', True)})
                    probes_.append({'op': 'DeleteAttribute', 'uid': u,
                                    'ref': 'Name'})
                else:
                    probes_.append({'op': 'ModifyAttribute', 'uid': u,
                                    'attr': A('Name', ['n', 1], 0)})
                    probes_.append({'op': 'DeleteAttribute', 'uid': u,
                                    'name': 'Name', 'index': 0})
        else:
            otype = 'SymmetricKey'
            for alg in range(1, 57):
                probes_.append({'op': 'MAC', 'uid': '@x', 'data': '0a0b',
                                'cp': {'alg': alg}})
            for alg in (1, 2, 3, 0x10, 0x11, 0x12, 0x13, 0x16):
                probes_.append({'op': 'Encrypt', 'uid': '@x',
                                'data': '00' * 16, 'iv': '01' * 16,
                                'cp': {'alg': alg, 'mode': 1, 'padding': 3}})
            for m in range(1, 9):
                for h in (4, 6, None):
                    cp = {'hash': h} if h else {}
                    probes_.append({'op': 'DeriveKey',
                                    'otype': 'SymmetricKey', 'uids': ['@x'],
                                    'method': m, 'params': {
                                        'cp': cp, 'data': 'aabb',
                                        'salt': 'ccdd', 'iter': 2},
                                    'attrs': [
                                        A('Cryptographic Length', 128),
                                        A('Cryptographic Algorithm', 3),
                                        A('Cryptographic Usage Mask', 12)]})
        steps = setup_steps(otype, 'Active', r, ctx)
        if kind in (5, 6):
            for op in extra_setup:
                steps.append({'actor': 0, 'ver': [1, 2], 'items': [op]})
        for op in probes_:
            st = {'actor': 0, 'ver': list(ver), 'probe': True,
                  'items': op if isinstance(op, list) else [op]}
            if isinstance(op, list):
                st['cont'] = 1
            steps.append(st)
        return {'actors': [{'cn': 'owner'}], 'seed': r.randrange(1 << 30),
                'steps': steps, 'cell': None,
                'attr_sweep': ['crypto-parameters', otype, list(ver)]}
    if index < SWEEP[tier] + ATTR_SWEEP:
        # the attribute table, complete: every attribute name the request
        # language can encode x {Set, Modify, Delete} x object type x
        # version, on one prepared object per plan
        from sim import reqs
        j = index - SWEEP[tier]
        j, oi = divmod(j, len(gen.OTYPES))
        j, vi = divmod(j, len(gen.VERSIONS))
        opname = ['ModifyAttribute', 'DeleteAttribute', 'SetAttribute'][j]
        otype, ver = gen.OTYPES[oi], gen.VERSIONS[vi]
        if opname == 'SetAttribute':
            ver = (2, 0)
        v2 = ver >= (2, 0)
        ctx = gen.Ctx(r, nactors=1)
        steps = setup_steps(otype, r.choice(STATES), r, ctx)
        for n in sorted(x for x, (tg, kd) in reqs.ATTRS.items()
                        if kd in SIMPLE_KINDS):
            a = A(n, SIMPLE_KINDS[reqs.ATTRS[n][1]])
            if opname == 'SetAttribute':
                op = {'op': opname, 'uid': '@x', 'new': a}
            elif opname == 'ModifyAttribute':
                if v2:
                    op = {'op': opname, 'uid': '@x', 'new': a}
                    if r.random() < 0.5:
                        op['cur'] = dict(a)
                else:
                    if r.random() < 0.5:
                        a['i'] = 0
                    op = {'op': opname, 'uid': '@x', 'attr': a}
            else:
                if v2:
                    op = {'op': opname, 'uid': '@x', 'cur': a} \
                        if r.random() < 0.5 else \
                        {'op': opname, 'uid': '@x', 'ref': n}
                else:
                    op = {'op': opname, 'uid': '@x', 'name': n}
                    if r.random() < 0.5:
                        op['index'] = 0
            steps.append({'actor': 0, 'ver': list(ver), 'items': [op],
                          'probe': True})
        return {'actors': [{'cn': 'owner'}], 'seed': r.randrange(1 << 30),
                'steps': steps, 'cell': None,
                'attr_sweep': [opname, otype, list(ver)]}
    ctx = gen.Ctx(r, nactors=2)
    steps = []
    for _ in range(r.randint(6, 20)):
        rq = gen.gen_request(ctx)
        rq['probe'] = True
        steps.append(rq)
    return {'actors': [{'cn': 'user0'}, {'cn': 'user1'}],
            'seed': r.randrange(1 << 30), 'steps': steps, 'cell': None}


def last_exception():
    for name, lv, msg, exc in reversed(kernel.LOG.records):
        if exc:
            lines = [ln for ln in exc.strip().splitlines() if ln.strip()]
            last = lines[-1]
            where = [ln.strip() for ln in lines if ln.strip().startswith(
                'File "') and '/kmip/' in ln]
            w = where[-1] if where else ''
            site = ''
            if w:
                # File ".../kmip/x/y.py", line N, in func -> y.py:func
                try:
                    site = w.split('"')[1].rsplit('/', 1)[1] + ':' + \
                        w.rsplit(' in ', 1)[1]
                except Exception:
                    site = w[:80]
            name = last.split(':')[0].strip()
            if ' ' in name:
                # chained / wrapped message: take the exception class of
                # the last 'Xxx: ...' looking line
                for ln in reversed(lines):
                    head = ln.split(':')[0].strip()
                    if head and ' ' not in head and head[0].isalpha():
                        name = head
                        break
            return name, last[:200], site
    return None, None, None


def execute(plan):
    probes = dict((p, 0) for p in PROBES)
    viol = []
    W = world.World(plan['actors'], None, seed=plan['seed'])
    cell = plan.get('cell')
    nontrivial = False
    trace = []

    def flag(oracle, **det):
        viol.append({'sig': {'oracle': oracle, 'op': det.get('op'),
                             'exception': det.get('exception'),
                             'where': det.get('site')},
                     'detail': det})

    try:
        for st in plan['steps']:
            if not st.get('probe'):
                W.request(copy.deepcopy(st))
                continue
            kernel.LOG.reset()
            resp = W.request(copy.deepcopy(st))
            frame = W.last['frame']
            ok_dec = decodable(frame)
            opname = st['items'][0]['op']
            otype = cell[1] if cell else None
            pcls = cell[4] if cell else None
            if not ok_dec:
                probes['request_not_decodable'] += 1
                continue
            internal = [m for (n, lv, m, ex) in kernel.LOG.records
                        if 'Error occurred while processing operation' in m
                        or 'An unexpected error occurred' in m]
            gf = resp is not None and any(
                it['reason_name'] == 'GeneralFailure' for it in resp.items)
            if W.last['escape']:
                if 'GetAttributes response payload' in W.last['escape']:
                    opname = 'GetAttributes'
                flag('exception-left-message-loop', op=opname, otype=otype,
                     exception=W.last['escape'].split(':')[0],
                     site='session.py:_handle_message_loop',
                     param_class=pcls, escape=W.last['escape'],
                     version=st['ver'], item=st['items'][0])
            elif gf or internal:
                ename, eline, where = last_exception()
                if plan.get('attr_sweep'):
                    otype = plan['attr_sweep'][1]
                flag('general-failure', op=opname, otype=otype,
                     exception=ename, param_class=pcls, error=eline,
                     site=where, version=st['ver'], item=st['items'][0],
                     state=cell[2] if cell else None)
            elif resp is not None:
                for it in resp.items:
                    if it['status'] == 0:
                        probes['success'] += 1
                    else:
                        probes['specific_error'] += 1
            trace.append(None if resp is None else
                         [(i['status'], i['reason']) for i in resp.items])
        if plan.get('attr_sweep'):
            probes['attribute_table_sweep'] += 1
        if cell:
            name, otype, state, ver, p = cell
            probes[{0: 'cell_valid', 1: 'cell_valid',
                    2: 'cell_foreign_type', 3: 'cell_unknown_attribute',
                    4: 'cell_unsupported_parameter',
                    5: 'cell_out_of_range'}[p]] += 1
            nontrivial = p >= 2 or (name in NATIVE and
                                    NATIVE[name] != otype)
            key = 'cell:%s' % (cell,)
        else:
            nontrivial = True
            key = None
        digest = kernel.digest_of([W.trace, trace])
        return {
            'violations': viol, 'nontrivial': nontrivial,
            'key': key or digest, 'digest': digest, 'faults': {},
            'probes': probes, 'sim_s': 0.0, 'steps': W.requests,
            'sample': cell or [[o['op'] for o in s['items']]
                               for s in plan['steps']][:8],
        }
    finally:
        W.close()


def directed(tier):
    """Known finding: KMIP 2.0 GetAttributes with nothing to report."""
    import random
    r = random.Random(3)
    ctx = gen.Ctx(r, nactors=1)
    steps = setup_steps('OpaqueData', 'PreActive', r, ctx)
    steps.append({'actor': 0, 'ver': [2, 0], 'probe': True, 'items': [
        {'op': 'GetAttributes', 'uid': '@x', 'names': ['Digest', 'Link']}]})
    plans = [{'actors': [{'cn': 'owner'}], 'seed': 3, 'steps': steps,
              'cell': ['GetAttributes', 'OpaqueData', 'PreActive', [2, 0],
                       4]}]
    # repaired (73bca64): Sign / SignatureVerify with a hashing algorithm
    # the crypto engine has no entry for, both paddings
    for name, ot in (('Sign', 'PrivateKey'), ('SignatureVerify',
                                              'PublicKey')):
        for pad in (8, 10):
            r = random.Random(5)
            ctx = gen.Ctx(r, nactors=1)
            st = setup_steps(ot, 'Active', r, ctx)
            op = {'op': name, 'uid': '@x', 'data': '0a0b',
                  'cp': {'alg': 4, 'hash': 1, 'padding': pad}}
            if name == 'SignatureVerify':
                op['sig'] = '11' * 128
            st.append({'actor': 0, 'ver': [1, 4], 'probe': True,
                       'items': [op]})
            plans.append({'actors': [{'cn': 'owner'}], 'seed': 5,
                          'steps': st,
                          'cell': [name, ot, 'Active', [1, 4], 4]})
    return plans
