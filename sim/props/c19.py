"""
C19 — the client reports exactly what the server answered.

Peer world: the real ProxyKmipClient / KMIPProxy / KMIPProtocol talk to a
scripted responder over the simulated socket. The responder emits legal
responses (success with seeded payload values, failure with every result
reason and arbitrary messages) built with the independent TTLV encoder,
and the transport splits, truncates, resets or times out the response
stream. Every request the client emits is checked with the independent
reader and offered to the real server decoder.
"""
import copy

from sim import client as simclient
from sim import gen, kernel, net, reqs
from sim import ttlv_ref as t
from sim.ttlv_ref import TAG, S, I, E, T, B, D
from sim.props import c05
from sim.props.c12 import decodable

ID = 'C19'
LEVEL = 'exploration'
COUNT = {'quick': 2600, 'thorough': 60000}
BUDGET_S = {'quick': 80, 'thorough': 840}
DETERMINISM = {'quick': 20, 'thorough': 120}
CHUNK = 20
OPS = ['create', 'create_key_pair', 'register', 'rekey', 'derive_key',
       'locate', 'check', 'get', 'get_attributes', 'get_attribute_list',
       'activate', 'revoke', 'destroy', 'encrypt', 'decrypt', 'sign',
       'signature_verify', 'mac', 'set_attribute', 'modify_attribute',
       'delete_attribute', 'proxy_query', 'proxy_discover_versions',
       'proxy_check', 'proxy_create_key_pair', 'proxy_rekey_key_pair']
RULE = ('plan = client operation (26: every ProxyKmipClient method, and KMIPProxy query, discover_versions, check, create_key_pair, rekey_key_pair whose result objects carry more than the pie client passes on) x KMIP version (6) x scripted response '
        '(success with seeded payload values incl. all seven object types '
        'for get; or failure with a seeded reason of the full reason table '
        'and a message that may be empty or non-ASCII) x transport plan: '
        'whole, seeded split, EVERY single split point (enumerated when the '
        'response is <= 256 bytes), EVERY cut offset 0..L-1 (enumerated), '
        'reset / timeout at a seeded offset, trailing bytes. evaluations '
        'counts individual client calls. Non-trivial: the response carried '
        'a non-default payload or a failure and the transport plan was not '
        '"whole". Distinct = (operation, version, response digest, '
        'transport kind).')
PROBES = ['failure_headed_1_0', 'response_value_longer_than_container', 'version_switched_on_the_same_client', 'prior_call_with_all_optional_fields', 'success_returned', 'failure_raised', 'all_cut_offsets',
          'all_split_points', 'reset', 'timeout', 'trailing_bytes',
          'request_accepted_by_server_decoder', 'non_ascii_message',
          'empty_message', 'get_object_roundtrip']
REAL_VS_STUB = {
    'real': ['ProxyKmipClient (every operation method)', 'KMIPProxy '
             'request construction and result extraction', 'KMIPProtocol '
             'framing', 'TTLV codec (client side)',
             'server-side RequestMessage decoder (for emitted requests)'],
    'stub': ['server -> scripted responder whose responses are built with '
             'the independent encoder', 'socket -> simulated stream with '
             'split / cut / reset / timeout', 'KMIPProxy.open()'],
}
ASSUMPTIONS = [
    'legal responses only: one batch item echoing the operation (or, for a '
    'failure of the whole message as the PyKMIP server itself reports '
    'authentication / parse / size failures, carrying no Operation), batch '
    'count 1, reason and message present exactly on failure',
    'a truncated, reset or timed-out response must raise (any exception); '
    'which exception is not prescribed',
]
A = gen.A
CPMAP = {'block_cipher_mode': 'mode', 'padding_method': 'padding',
         'hashing_algorithm': 'hash', 'key_role_type': 'role',
         'digital_signature_algorithm': 'dsa',
         'cryptographic_algorithm': 'alg', 'random_iv': 'random_iv',
         'iv_length': 'iv_len', 'tag_length': 'tag_len',
         'fixed_field_length': 'fixed_len',
         'invocation_field_length': 'invoc_len',
         'counter_length': 'counter_len',
         'initial_counter_value': 'init_counter'}


def spec_to_obj(spec):
    """c05 object spec -> reqs managed-object dict."""
    o = {'value': spec['value']}
    for k in ('kft', 'alg', 'len', 'parts', 'part_id', 'threshold', 'method',
              'prime', 'sdtype', 'odtype'):
        if k in spec:
            o[k] = spec[k]
    if spec['otype'] == 'Certificate':
        o['ctype'] = 1
    if spec['otype'] in ('SymmetricKey',) and 'kft' not in o:
        o['kft'] = 1
    w = spec.get('wrap')
    if w:
        def ki(d):
            if d is None:
                return None
            out = {'uid': d['unique_identifier']}
            cp = d.get('cryptographic_parameters')
            if cp is not None:
                out['cp'] = dict((CPMAP[k], v) for k, v in cp.items())
            return out
        o['wrap'] = {'method': w['wrapping_method'],
                     'enc': ki(w.get('encryption_key_information')),
                     'mac': ki(w.get('mac_signature_key_information')),
                     'sig': w.get('mac_signature'),
                     'iv': w.get('iv_counter_nonce'),
                     'encoding': w.get('encoding_option')}
    return o


def gen_uid(r):
    x = r.random()
    if x < 0.1:
        return u'uid-é-%d' % r.randrange(99)
    if x < 0.2:
        return 'fc8833de-70d2-4ece-b063-fede3a3c59fe'
    return str(r.randrange(1, 10 ** 6))


def gen_response(r, op, ver, rich=False):
    """Success payload spec for a client operation."""
    p = {'uid': gen_uid(r)}
    if op == 'create_key_pair':
        p['pub'] = gen_uid(r)
    elif op in ('proxy_create_key_pair', 'proxy_rekey_key_pair'):
        # the result objects of KMIPProxy carry both identifiers and, below
        # KMIP 2.0, the template attributes the server applied to each key
        p['pub'] = gen_uid(r)
        while p['pub'] == p['uid']:
            p['pub'] = gen_uid(r)
        if ver < (2, 0):
            if rich or r.random() < 0.6:
                p['priv_attrs'] = [
                    A('Name', ['priv-%d' % r.randrange(99), 1], 0),
                    A('Cryptographic Usage Mask', 1)][:r.choice([1, 2])]
            if rich or r.random() < 0.6:
                p['pub_attrs'] = [
                    A('Name', ['pub-%d' % r.randrange(99), 1], 0),
                    A('Cryptographic Usage Mask', 2)][:r.choice([1, 2])]
    elif op == 'locate':
        p['uids'] = [gen_uid(r) for _ in range(r.choice([0, 1, 2, 5]))]
    elif op == 'get':
        ot = r.choice(gen.OTYPES)
        spec = c05.gen_spec(r, ot)
        if 'wrap' in spec and r.random() < 0.5:
            spec.pop('wrap')
        if 'len' in spec and ot in ('SymmetricKey', 'SplitKey') and \
                'wrap' not in spec:
            # a plaintext key whose length disagrees with its value is not
            # something a server can legally send
            if not spec['value']:
                spec['value'] = '00'
            spec['len'] = len(spec['value']) * 4
        p['spec'] = spec
    elif op == 'get_attributes':
        at = [A('Cryptographic Algorithm', r.choice([3, 4, 2])),
              A('Cryptographic Length', r.choice([128, 2048, 0])),
              A('Cryptographic Usage Mask', r.randrange(1 << 20)),
              A('State', r.choice([1, 2, 3, 4])),
              A('Object Type', r.choice([1, 2, 3, 4, 7, 8])),
              A('Operation Policy Name', 'pol-%d' % r.randrange(9)),
              A('Initial Date', r.randrange(1, 2 ** 40), k='date'),
              A('Name', ['n-%d' % r.randrange(99), r.choice([1, 2])], 0),
              A('Object Group', 'grp%d' % r.randrange(9), 0),
              A('Application Specific Information',
                ['ns', 'd%d' % r.randrange(9)], 0)]
        if ver >= (1, 4):
            at.append(A('Sensitive', r.random() < 0.5))
        if ver >= (2, 0):
            at = [a for a in at if a['n'] != 'Operation Policy Name']
        p['attrs'] = r.sample(at, r.randint(1, len(at)))
    elif op == 'get_attribute_list':
        p['names'] = r.sample(['Name', 'State', 'Object Type',
                               'Cryptographic Algorithm', 'Initial Date',
                               'Cryptographic Usage Mask', 'Object Group'],
                              r.randint(1, 5))
    elif op in ('encrypt',):
        p['data'] = bytes(r.getrandbits(8) for _ in range(
            r.choice([0, 1, 16, 33]))).hex()
        if rich or r.random() < 0.5:
            p['iv'] = bytes(r.getrandbits(8) for _ in range(16)).hex()
    elif op in ('decrypt',):
        p['data'] = bytes(r.getrandbits(8) for _ in range(
            r.choice([0, 1, 16, 33]))).hex()
    elif op == 'sign':
        p['sig'] = bytes(r.getrandbits(8) for _ in range(
            r.choice([1, 64, 128]))).hex()
    elif op == 'signature_verify':
        p['validity'] = r.choice([1, 2, 3])
    elif op == 'mac':
        p['mac'] = bytes(r.getrandbits(8) for _ in range(
            r.choice([1, 20, 32, 64]))).hex()
    elif op in ('modify_attribute', 'delete_attribute') and ver < (2, 0):
        p['attr'] = A('Name', ['mod-%d' % r.randrange(99), 1], 0)
    elif op == 'proxy_query':
        p['operations'] = r.sample([1, 2, 3, 8, 10, 11, 12, 18, 19, 20, 24,
                                    30, 31, 32], r.randint(0, 8))
        p['vendor'] = r.choice([None, 'Vendor-%d' % r.randrange(99)])
    elif op == 'proxy_discover_versions':
        p['versions'] = [list(v) for v in r.sample(gen.VERSIONS,
                                                    r.randint(0, 6))]
    elif op in ('check', 'proxy_check'):
        if rich or r.random() < 0.4:
            p['lease'] = r.choice([0, 60, 3600])
        if rich or r.random() < 0.4:
            p['mask'] = r.choice([4, 12, 0x80, 0xFFFFF])
        if rich or r.random() < 0.4:
            p['limit'] = r.choice([0, 1, 2 ** 40])
    return p


OPNUM = {'create': 1, 'create_key_pair': 2, 'register': 3, 'rekey': 4,
         'derive_key': 5, 'locate': 8, 'check': 9, 'get': 10,
         'get_attributes': 11, 'get_attribute_list': 12, 'activate': 18,
         'revoke': 19, 'destroy': 20, 'encrypt': 31, 'decrypt': 32,
         'sign': 33, 'signature_verify': 34, 'mac': 35, 'set_attribute': 49,
         'modify_attribute': 14, 'delete_attribute': 15, 'proxy_query': 24,
         'proxy_discover_versions': 30, 'proxy_check': 9,
         'proxy_create_key_pair': 2, 'proxy_rekey_key_pair': 0x1D}
MIN_VER = {'proxy_discover_versions': (1, 1), 'encrypt': (1, 2), 'decrypt': (1, 2), 'sign': (1, 2),
           'signature_verify': (1, 2), 'mac': (1, 2),
           'set_attribute': (2, 0)}


def payload_nodes(op, p, ver):
    U = lambda u: T(TAG['UNIQUE_IDENTIFIER'], u)
    v2 = ver >= (2, 0)
    if op == 'create':
        return [E(TAG['OBJECT_TYPE'], 2), U(p['uid'])]
    if op == 'create_key_pair':
        return [T(TAG['PRIVATE_KEY_UNIQUE_IDENTIFIER'], p['uid']),
                T(TAG['PUBLIC_KEY_UNIQUE_IDENTIFIER'], p['pub'])]
    if op in ('proxy_create_key_pair', 'proxy_rekey_key_pair'):
        out = [T(TAG['PRIVATE_KEY_UNIQUE_IDENTIFIER'], p['uid']),
               T(TAG['PUBLIC_KEY_UNIQUE_IDENTIFIER'], p['pub'])]
        if not v2 and p.get('priv_attrs'):
            out.append(S(TAG['PRIVATE_KEY_TEMPLATE_ATTRIBUTE'],
                         *[reqs.attr_v1(a) for a in p['priv_attrs']]))
        if not v2 and p.get('pub_attrs'):
            out.append(S(TAG['PUBLIC_KEY_TEMPLATE_ATTRIBUTE'],
                         *[reqs.attr_v1(a) for a in p['pub_attrs']]))
        return out
    if op in ('check', 'proxy_check'):
        out = [U(p['uid'])]
        if p.get('limit') is not None:
            out.append(t.L(0x420096, p['limit']))
        if p.get('mask') is not None:
            out.append(I(TAG['CRYPTOGRAPHIC_USAGE_MASK'], p['mask']))
        if p.get('lease') is not None:
            out.append(t.Node(0x420049, t.INTERVAL, p['lease']))
        return out
    if op in ('register', 'rekey', 'derive_key', 'activate', 'revoke',
              'destroy', 'set_attribute'):
        return [U(p['uid'])]
    if op == 'locate':
        return [U(u) for u in p['uids']]
    if op == 'get':
        spec = p['spec']
        return [E(TAG['OBJECT_TYPE'], c05.OT_NUM[spec['otype']]),
                U(p['uid']),
                reqs.managed_object(spec['otype'], spec_to_obj(spec),
                                    reqs.identity)]
    if op == 'get_attributes':
        if v2:
            return [U(p['uid']), S(TAG['ATTRIBUTES'],
                                   *[reqs.attr_v2(a) for a in p['attrs']])]
        return [U(p['uid'])] + [reqs.attr_v1(a) for a in p['attrs']]
    if op == 'get_attribute_list':
        if v2:
            return [U(p['uid'])] + [E(TAG['ATTRIBUTE_REFERENCE'],
                                      reqs.ATTRS[n][0]) for n in p['names']]
        return [U(p['uid'])] + [T(TAG['ATTRIBUTE_NAME'], n)
                                for n in p['names']]
    if op == 'encrypt':
        out = [U(p['uid']), B(TAG['DATA'], bytes.fromhex(p['data']))]
        if p.get('iv') is not None:
            out.append(B(TAG['IV_COUNTER_NONCE'], bytes.fromhex(p['iv'])))
        return out
    if op == 'decrypt':
        return [U(p['uid']), B(TAG['DATA'], bytes.fromhex(p['data']))]
    if op == 'sign':
        return [U(p['uid']), B(TAG['SIGNATURE_DATA'],
                               bytes.fromhex(p['sig']))]
    if op == 'signature_verify':
        return [U(p['uid']), E(TAG['VALIDITY_INDICATOR'], p['validity'])]
    if op == 'mac':
        return [U(p['uid']), B(TAG['MAC_DATA'], bytes.fromhex(p['mac']))]
    if op in ('modify_attribute', 'delete_attribute'):
        out = [U(p['uid'])]
        if not v2 and p.get('attr'):
            out.append(reqs.attr_v1(p['attr']))
        return out
    if op == 'proxy_query':
        out = [E(TAG['OPERATION'], o) for o in p['operations']]
        if p.get('vendor') is not None:
            out.append(T(TAG['VENDOR_IDENTIFICATION'], p['vendor']))
        return out
    if op == 'proxy_discover_versions':
        return [S(TAG['PROTOCOL_VERSION'],
                  I(TAG['PROTOCOL_VERSION_MAJOR'], a),
                  I(TAG['PROTOCOL_VERSION_MINOR'], b))
                for a, b in p['versions']]
    raise ValueError(op)


def build_response(op, ver, ok, p, fail, now=1600000000):
    items = [E(TAG['OPERATION'], OPNUM[op])]
    if not ok and fail.get('no_operation'):
        # a failure of the whole message (authentication, undecodable or
        # oversized request ...): the server's error response carries no
        # Operation in its single item
        items = []
    if ok:
        items += [E(TAG['RESULT_STATUS'], 0),
                  S(TAG['RESPONSE_PAYLOAD'], *payload_nodes(op, p, ver))]
    else:
        items += [E(TAG['RESULT_STATUS'], fail['status']),
                  E(TAG['RESULT_REASON'], fail['reason']),
                  T(TAG['RESULT_MESSAGE'], fail['message'])]
    hv = (1, 0) if (not ok and fail.get('header_1_0')) else ver
    msg = S(TAG['RESPONSE_MESSAGE'],
            S(TAG['RESPONSE_HEADER'],
              S(TAG['PROTOCOL_VERSION'],
                I(TAG['PROTOCOL_VERSION_MAJOR'], hv[0]),
                I(TAG['PROTOCOL_VERSION_MINOR'], hv[1])),
              D(TAG['TIME_STAMP'], now), I(TAG['BATCH_COUNT'], 1)),
            S(TAG['BATCH_ITEM'], *items))
    return t.encode(msg)


def invoke(c, op, ver, r_args):
    """Call the client method with valid arguments."""
    from kmip.core import enums, objects as cobj
    from kmip.core.factories import attributes as af
    uid = r_args['uid']
    v = r_args.get('variant', 0)
    pol = 'pol' if ver < (2, 0) else None   # removed in KMIP 2.0
    if op == 'create':
        if v == 1:
            return c.create(enums.CryptographicAlgorithm.BLOWFISH, 128)
        if v == 2:
            return c.create(enums.CryptographicAlgorithm.AES, 192,
                            operation_policy_name=pol, name=u'n\u00e9')
        return c.create(enums.CryptographicAlgorithm.AES, 256,
                        name='n', cryptographic_usage_mask=[
                            enums.CryptographicUsageMask.ENCRYPT])
    if op == 'create_key_pair':
        if v == 1:
            return c.create_key_pair(
                enums.CryptographicAlgorithm.RSA, 1024,
                operation_policy_name=pol, public_name='pub',
                public_usage_mask=[enums.CryptographicUsageMask.VERIFY],
                private_name='priv',
                private_usage_mask=[enums.CryptographicUsageMask.SIGN])
        return c.create_key_pair(enums.CryptographicAlgorithm.RSA, 2048)
    if op == 'register':
        return c.register(c05.build_pie(r_args['spec']))
    if op == 'rekey':
        return c.rekey(uid=uid, offset=r_args.get('offset'))
    if op == 'derive_key' and v == 1:
        return c.derive_key(
            enums.ObjectType.SECRET_DATA, [uid, 'other-base'],
            enums.DerivationMethod.PBKDF2,
            {'cryptographic_parameters': {
                'hashing_algorithm': enums.HashingAlgorithm.SHA_1},
             'salt': b'\x8c\x10', 'iteration_count': 4096,
             'initialization_vector': b'\x01' * 8},
            cryptographic_length=256,
            cryptographic_usage_mask=[
                enums.CryptographicUsageMask.DERIVE_KEY],
            operation_policy_name=pol, name='derived')
    if op == 'derive_key':
        return c.derive_key(
            enums.ObjectType.SYMMETRIC_KEY, [uid],
            enums.DerivationMethod.HMAC,
            {'cryptographic_parameters': {
                'hashing_algorithm': enums.HashingAlgorithm.SHA_256},
             'derivation_data': b'\x01'},
            cryptographic_length=128,
            cryptographic_algorithm=enums.CryptographicAlgorithm.AES)
    if op == 'locate':
        if v == 1:
            f = af.AttributeFactory()
            return c.locate(
                maximum_items=3, offset_items=1 if ver >= (1, 3) else None,
                attributes=[
                    f.create_attribute(enums.AttributeType.OBJECT_TYPE,
                                       enums.ObjectType.SYMMETRIC_KEY),
                    f.create_attribute(enums.AttributeType.NAME, 'nm'),
                    f.create_attribute(
                        enums.AttributeType.CRYPTOGRAPHIC_LENGTH, 128),
                    f.create_attribute(enums.AttributeType.STATE,
                                       enums.State.ACTIVE)])
        if v == 2:
            return c.locate(storage_status_mask=1,
                            object_group_member=enums.ObjectGroupMember.
                            GROUP_MEMBER_FRESH)
        return c.locate(maximum_items=r_args.get('max'))
    if op == 'check':
        if v == 1:
            return c.check(uid=uid, usage_limits_count=7,
                           cryptographic_usage_mask=[
                               enums.CryptographicUsageMask.ENCRYPT,
                               enums.CryptographicUsageMask.DECRYPT],
                           lease_time=3600)
        if v == 2:
            return c.check(uid=uid, lease_time=0)
        return c.check(uid=uid)
    if op == 'get':
        if v == 1:
            return c.get(uid, key_wrapping_specification={
                'wrapping_method': enums.WrappingMethod.ENCRYPT,
                'encryption_key_information': {
                    'unique_identifier': '42',
                    'cryptographic_parameters': {
                        'block_cipher_mode':
                        enums.BlockCipherMode.NIST_KEY_WRAP}},
                'encoding_option': enums.EncodingOption.NO_ENCODING})
        if v == 2:
            return c.get(uid, key_wrapping_specification={
                'wrapping_method': enums.WrappingMethod.MAC_SIGN,
                'mac_signature_key_information': {
                    'unique_identifier': '43',
                    'cryptographic_parameters': {
                        'hashing_algorithm':
                        enums.HashingAlgorithm.SHA_512}},
                'attribute_names': ['Cryptographic Algorithm', 'Name']})
        return c.get(uid)
    if op == 'get_attributes':
        return c.get_attributes(uid, r_args.get('names'))
    if op == 'get_attribute_list':
        return c.get_attribute_list(uid)
    if op == 'activate':
        return c.activate(uid)
    if op == 'revoke':
        if v == 1:
            return c.revoke(enums.RevocationReasonCode(r_args['code']), uid,
                            revocation_message=r_args.get('msg'),
                            compromise_occurrence_date=1500000000)
        return c.revoke(enums.RevocationReasonCode(r_args['code']), uid,
                        revocation_message=r_args.get('msg'))
    if op == 'destroy':
        return c.destroy(uid)
    cp = {'cryptographic_algorithm': enums.CryptographicAlgorithm.AES,
          'block_cipher_mode': enums.BlockCipherMode.CBC,
          'padding_method': enums.PaddingMethod.PKCS5}
    if op == 'encrypt' and v == 1:
        return c.encrypt(b'', uid=uid, cryptographic_parameters={
            'cryptographic_algorithm': enums.CryptographicAlgorithm.AES,
            'block_cipher_mode': enums.BlockCipherMode.GCM,
            'tag_length': 16, 'iv_length': 12, 'random_iv': True})
    if op == 'encrypt' and v == 2:
        return c.encrypt(b'\x07' * 33, uid=uid)
    if op == 'encrypt':
        return c.encrypt(b'\x01' * 16, uid=uid, cryptographic_parameters=cp,
                         iv_counter_nonce=b'\x02' * 16)
    if op == 'decrypt':
        return c.decrypt(b'\x01' * 16, uid=uid, cryptographic_parameters=cp,
                         iv_counter_nonce=b'\x02' * 16)
    scp = {'cryptographic_algorithm': enums.CryptographicAlgorithm.RSA,
           'hashing_algorithm': enums.HashingAlgorithm.SHA_256,
           'padding_method': enums.PaddingMethod.PKCS1v15}
    if op == 'sign':
        return c.sign(b'msg', uid=uid, cryptographic_parameters=scp)
    if op == 'signature_verify':
        return c.signature_verify(b'msg', b'\x05' * 64, uid=uid,
                                  cryptographic_parameters=scp)
    if op == 'mac':
        return c.mac(b'data', uid=uid,
                     algorithm=enums.CryptographicAlgorithm.HMAC_SHA256)
    if op == 'proxy_check':
        d = c.proxy.check(uid)
        if getattr(d.get('result_status'), 'value',
                   d.get('result_status')) not in (
                       0, enums.ResultStatus.SUCCESS):
            raise ProxyFailure(d.get('result_status'),
                               d.get('result_reason'),
                               d.get('result_message'))
        return d
    if op == 'proxy_create_key_pair':
        return proxy_result(c.proxy.create_key_pair())
    if op == 'proxy_rekey_key_pair':
        from kmip.core import attributes as cattr
        return proxy_result(c.proxy.rekey_key_pair(
            private_key_uuid=None if uid is None else
            cattr.PrivateKeyUniqueIdentifier(uid),
            offset=None))
    if op == 'proxy_query':
        return proxy_result(c.proxy.query(query_functions=[
            enums.QueryFunction.QUERY_OPERATIONS,
            enums.QueryFunction.QUERY_SERVER_INFORMATION]))
    if op == 'proxy_discover_versions':
        return proxy_result(c.proxy.discover_versions())
    fac = af.AttributeFactory()
    if op == 'set_attribute':
        return c.set_attribute(unique_identifier=uid,
                               attribute_name='Sensitive',
                               attribute_value=True)
    if op == 'modify_attribute':
        if ver >= (2, 0):
            from kmip.core import primitives
            return c.modify_attribute(
                unique_identifier=uid,
                new_attribute=cobj.NewAttribute(
                    attribute=primitives.Boolean(
                        True, tag=enums.Tags.SENSITIVE)))
        return c.modify_attribute(
            unique_identifier=uid,
            attribute=fac.create_attribute(enums.AttributeType.NAME,
                                           'new-name', 0))
    if op == 'delete_attribute':
        if ver >= (2, 0):
            return c.delete_attribute(
                unique_identifier=uid,
                attribute_reference=cobj.AttributeReference(
                    vendor_identification='x', attribute_name='Name'))
        return c.delete_attribute(unique_identifier=uid,
                                  attribute_name='Name', attribute_index=0)
    raise ValueError(op)


class ProxyFailure(Exception):
    """KMIPProxy methods report failures in the result object; the
    harness turns that into the same shape as an operation failure."""

    def __init__(self, status, reason, message):
        Exception.__init__(self, message)
        ev = lambda x: getattr(x, 'value', x)
        self.status, self.reason, self.message = \
            ev(ev(status)), ev(ev(reason)), ev(message)


def proxy_result(res):
    import enum
    ev = lambda x: getattr(x, 'value', x)
    st = ev(res.result_status)
    if st != enum.Enum and getattr(st, 'value', st) != 0:
        raise ProxyFailure(ev(res.result_status), ev(res.result_reason),
                           ev(res.result_message))
    return res


def project(op, ver, res):
    """Client return value -> comparable JSON value."""
    import enum
    if op == 'proxy_check':
        m = res.get('cryptographic_usage_mask')
        if m is not None:
            mv = 0
            for e_ in m:
                mv |= e_.value
            m = mv
        return [res.get('unique_identifier'),
                res.get('usage_limits_count'), m, res.get('lease_time')]
    if op in ('proxy_create_key_pair', 'proxy_rekey_key_pair'):
        ev = lambda x: getattr(x, 'value', x)
        ta = lambda x: None if x is None else c05.attrs_plain(x.attributes)
        return [ev(res.private_key_uuid), ev(res.public_key_uuid),
                ta(res.private_key_template_attribute),
                ta(res.public_key_template_attribute)]
    if op == 'proxy_query':
        ops = [getattr(getattr(o, 'value', o), 'value',
                       getattr(o, 'value', o)) for o in res.operations or []]
        vend = res.vendor_identification
        return [ops, getattr(vend, 'value', vend)]
    if op == 'proxy_discover_versions':
        return [[v.major, v.minor] for v in res.protocol_versions or []]
    if op in ('create', 'register', 'rekey', 'derive_key', 'check',
              'set_attribute'):
        return res
    if op == 'create_key_pair':
        return list(res)
    if op == 'locate':
        return list(res)
    if op == 'get':
        return c05.project(res)
    if op == 'get_attributes':
        return [res[0], c05.attrs_plain(res[1], no_indices=ver >= (2, 0))]
    if op == 'get_attribute_list':
        return sorted(res)
    if op in ('activate', 'revoke', 'destroy'):
        return None
    if op == 'encrypt':
        return [None if x is None else bytes(x).hex() for x in res]
    if op in ('decrypt', 'sign'):
        return None if res is None else bytes(res).hex()
    if op == 'signature_verify':
        return res.value if isinstance(res, enum.Enum) else res
    if op == 'mac':
        return [res[0], bytes(res[1]).hex()]
    if op in ('modify_attribute', 'delete_attribute'):
        uid, attr = res
        if attr is None:
            return [uid, None]
        return [uid, c05.attrs_plain([attr])]
    raise ValueError(op)


def expected(op, ver, p):
    if op == 'proxy_check':
        return [p['uid'], p.get('limit'), p.get('mask'), p.get('lease')]
    if op in ('proxy_create_key_pair', 'proxy_rekey_key_pair'):
        def ta(attrs):
            if not attrs or ver >= (2, 0):
                return None
            return sorted([[a['n'], a.get('i') or 0,
                            list(a['v']) if isinstance(a['v'], (list, tuple))
                            else a['v']] for a in attrs],
                          key=lambda x: (x[0], x[1]))
        return [p['uid'], p['pub'], ta(p.get('priv_attrs')),
                ta(p.get('pub_attrs'))]
    if op == 'proxy_query':
        return [list(p['operations']), p.get('vendor')]
    if op == 'proxy_discover_versions':
        return [list(v) for v in p['versions']]
    if op in ('create', 'register', 'rekey', 'derive_key', 'check',
              'set_attribute'):
        return p['uid']
    if op == 'create_key_pair':
        return [p['pub'], p['uid']]
    if op == 'locate':
        return list(p['uids'])
    if op == 'get':
        return c05.expected_projection(p['spec'])
    if op == 'get_attributes':
        out = []
        seen = {}
        for a in p['attrs']:
            n = a['n']
            i = a.get('i') or 0
            if ver >= (2, 0):
                i = seen.get(n, 0)
                seen[n] = i + 1
            v = a['v']
            out.append([n, i, list(v) if isinstance(v, (list, tuple))
                        else v])
        return [p['uid'], sorted(out, key=lambda x: (x[0], x[1]))]
    if op == 'get_attribute_list':
        return sorted(p['names'])
    if op in ('activate', 'revoke', 'destroy'):
        return None
    if op == 'encrypt':
        return [p['data'], p.get('iv')]
    if op == 'decrypt':
        return p['data']
    if op == 'sign':
        return p['sig']
    if op == 'signature_verify':
        return p['validity']
    if op == 'mac':
        return [p['uid'], p['mac']]
    if op in ('modify_attribute', 'delete_attribute'):
        if ver >= (2, 0) or not p.get('attr'):
            return [p['uid'], None]
        a = p['attr']
        return [p['uid'], [[a['n'], a.get('i') or 0, list(a['v'])]]]
    raise ValueError(op)


def generate(rng, tier, index):
    r = rng
    op = OPS[index % len(OPS)] if r.random() < 0.6 else r.choice(OPS)
    ver = r.choice(gen.VERSIONS)
    if op in MIN_VER and ver < MIN_VER[op]:
        ver = r.choice([v for v in gen.VERSIONS if v >= MIN_VER[op]])
    ok = r.random() < 0.6
    args = {'uid': gen_uid(r) if r.random() < 0.9 else None}
    if op in ('get', 'get_attributes', 'get_attribute_list',
              'derive_key') and args['uid'] is None:
        args['uid'] = gen_uid(r)
    if op == 'register':
        ot = r.choice(gen.OTYPES)
        spec = c05.gen_spec(r, ot)
        if 'len' in spec and ot in ('SymmetricKey', 'SplitKey'):
            spec['len'] = len(spec['value']) * 4 or 8
            if not spec['value']:
                spec['value'] = '00'
        args['spec'] = spec
    if op == 'revoke':
        args['code'] = r.choice([1, 2, 3, 4, 5, 6, 7])
        args['msg'] = r.choice([None, 'why'])
    if op == 'get_attributes' and r.random() < 0.5:
        args['names'] = ['State', 'Name']
    if op == 'locate':
        args['max'] = r.choice([None, 5])
    if op == 'rekey':
        args['offset'] = r.choice([None, 0, 60])
    args['variant'] = r.choice([0, 0, 1, 2])
    plan = {'op': op, 'ver': list(ver), 'ok': ok, 'args': args,
            'seed': r.randrange(1 << 30)}
    if r.random() < 0.6:
        # an earlier successful call of the same operation whose response
        # carried every optional field (client-side state must not carry
        # over into the call under test)
        plan['prior'] = gen_response(r, op, tuple(ver), rich=True)
        if r.random() < 0.5:
            # ... made under another KMIP version on the same client object
            plan['prior_ver'] = list(r.choice(gen.VERSIONS))
    if ok:
        plan['payload'] = gen_response(r, op, tuple(ver))
    else:
        reason = r.choice(sorted(k for k in t.RESULT_REASON if k <= 24) +
                          [0x100])
        msg = r.choice(['Could not locate object: 7', '', 'x',
                        u'défaillance 中', 'a' * 300,
                        'Operation failed. See the server logs.'])
        plan['fail'] = {'status': r.choice([1, 1, 1, 2, 3]),
                        'reason': reason, 'message': msg}
        if r.random() < 0.25:
            plan['fail']['no_operation'] = True
            if r.random() < 0.5:
                # ... answered, as the PyKMIP server answers whatever it
                # refuses before parsing (certificate problems, undecodable
                # requests), under protocol version 1.0 in the header
                plan['fail']['header_1_0'] = True
    x = r.random()
    if x < 0.25:
        plan['transport'] = {'kind': 'whole'}
    elif x < 0.45:
        plan['transport'] = {'kind': 'split', 'chunks': [
            r.choice([1, 2, 3, 5, 8, 13, 100]) for _ in range(40)]}
    elif x < 0.6:
        plan['transport'] = {'kind': 'all_splits'}
    elif x < 0.8:
        plan['transport'] = {'kind': 'all_cuts'}
    elif x < 0.87:
        plan['transport'] = {'kind': r.choice(['reset', 'timeout']),
                             'at': r.choice([0, 1, 7, 8, 9, 40, 100])}
    elif x < 0.94:
        # a response that is framed correctly but whose body is corrupted
        # (grammar-aware): if a value in it announces more bytes than its
        # container holds, the client must raise, never return data
        from sim import mutate
        plan['transport'] = {'kind': 'corrupt',
                             'muts': [mutate.gen_spec(r) for _ in range(6)]}
    else:
        plan['transport'] = {'kind': 'trailing'}
    return plan


def call(plan, raw, sock_cfg, prior=None):
    """One client call against a responder returning `raw`. Returns
    ('ok', projected) | ('raise', class, (status, reason, message)|None)."""
    captured = []
    cur = [raw]

    def responder(frame):
        captured.append((frame, cur_ver[0]))
        return cur[0] + sock_cfg.get('trailing', b'')
    ver = tuple(plan['ver'])
    cur_ver = [ver]
    first_ver = ver
    if prior is not None:
        first_ver = tuple(prior[1])
    c, sock = simclient.make_client(responder, first_ver)
    if prior is not None:
        # an earlier call on the SAME client object (possibly under another
        # KMIP version, switched through the public setter afterwards):
        # nothing of it may carry over into the call under test
        cur[0] = prior[0]
        cur_ver[0] = first_ver
        try:
            invoke(c, plan['op'], first_ver, dict(plan['args']))
        except Exception:
            pass
        if first_ver != ver:
            c.kmip_version = simclient.kmip_version(ver)
        cur[0] = raw
        cur_ver[0] = ver
        sock.inbuf = bytearray()
    if sock_cfg.get('chunks'):
        sock.chunks = list(sock_cfg['chunks'])
    if sock_cfg.get('cut') is not None:
        sock.cut_at = sock_cfg['cut']
    if sock_cfg.get('fault'):
        sock.fault_recv = sock_cfg['fault']
        sock.delivered = 0
    args = dict(plan['args'])
    try:
        res = invoke(c, plan['op'], ver, args)
        out = ('ok', project(plan['op'], ver, res))
    except Exception as e:
        trip = None
        if hasattr(e, 'status') and hasattr(e, 'reason'):
            import enum
            ev = lambda x: x.value if isinstance(x, enum.Enum) else x
            msg = getattr(e, 'message', None)
            if msg is None and e.args:
                msg = e.args[0]      # core OperationFailure: str(e)
            trip = [ev(e.status), ev(e.reason), msg]
        out = ('raise', type(e).__name__, trip, str(e)[:200])
    return out, captured


def execute(plan):
    kernel.reset(None, plan['seed'])
    probes = dict((p, 0) for p in PROBES)
    faults = {'split_response': 0, 'truncate_response': 0, 'reset': 0,
              'timeout': 0, 'trailing_bytes': 0, 'corrupt_response': 0}
    viol = []
    op = plan['op']
    ver = tuple(plan['ver'])
    evals = 0

    def flag(oracle, **det):
        viol.append({'sig': {'oracle': oracle, 'op': op,
                             'why': det.get('why')}, 'detail': det})

    try:
        raw = build_response(op, ver, plan['ok'], plan.get('payload'),
                             plan.get('fail'))
    except Exception as e:
        raise RuntimeError('responder could not build response: %r' % e)
    L = len(raw)
    want_ok = expected(op, ver, plan['payload']) if plan['ok'] else None
    want_fail = None if plan['ok'] else [plan['fail']['status'],
                                         plan['fail']['reason'],
                                         plan['fail']['message']]
    if not plan['ok']:
        if plan['fail']['message'] == '':
            probes['empty_message'] += 1
        if any(ord(ch) > 127 for ch in plan['fail']['message']):
            probes['non_ascii_message'] += 1

    def judge(out, how):
        if plan['ok']:
            if out[0] != 'ok':
                flag('success-not-returned', why=out[1], how=how,
                     error=out[3], version=ver)
            elif kernel.jsonable_equal(out[1], want_ok) is False:
                flag('returned-data-differs-from-response', why=None,
                     how=how, got=out[1], want=want_ok, version=ver)
            else:
                probes['success_returned'] += 1
        else:
            if out[0] == 'ok':
                flag('failure-reported-as-success', why=None, how=how,
                     returned=out[1], version=ver)
            elif out[2] is None:
                flag('failure-raised-without-details', why=out[1], how=how,
                     error=out[3])
            elif out[2] != want_fail:
                flag('failure-details-differ', why=None, how=how,
                     got=out[2], want=want_fail)
            else:
                probes['failure_raised'] += 1
                if plan['fail'].get('header_1_0'):
                    probes['failure_headed_1_0'] += 1

    tr = plan['transport']
    k = tr['kind']
    prior = None
    if plan.get('prior') is not None:
        probes['prior_call_with_all_optional_fields'] += 1
        pv = tuple(plan.get('prior_ver') or ver)
        if pv != ver:
            probes['version_switched_on_the_same_client'] += 1
        prior = (build_response(op, pv, True, plan['prior'], None), pv)
        evals += 1
    base, captured = call(plan, raw, {}, prior)
    evals += 1
    judge(base, 'whole')
    # (3) the requests the client emitted
    for f, fver in captured:
        try:
            tree = t.parse(f)
        except t.TTLVError as e:
            flag('client-emitted-malformed-ttlv', why=str(e)[:80])
            continue
        hv = None
        try:
            pvn = tree.child(TAG['REQUEST_HEADER']).child(
                TAG['PROTOCOL_VERSION'])
            hv = (pvn.get(TAG['PROTOCOL_VERSION_MAJOR']),
                  pvn.get(TAG['PROTOCOL_VERSION_MINOR']))
        except Exception:
            pass
        if hv != tuple(fver):
            flag('client-request-header-names-another-version', why=None,
                 header=hv, client_version=fver)
        if decodable(f):
            probes['request_accepted_by_server_decoder'] += 1
        else:
            flag('client-request-not-decodable-by-server', why=None,
                 version=fver, args=plan['args'])
    if op == 'get' and plan['ok'] and base[0] == 'ok':
        probes['get_object_roundtrip'] += 1
    if k == 'split':
        out, _ = call(plan, raw, {'chunks': tr['chunks']})
        evals += 1
        faults['split_response'] += 1
        if out != base:
            flag('result-depends-on-chunking', why='split',
                 chunks=tr['chunks'][:8])
    elif k == 'all_splits':
        if L <= 256:
            probes['all_split_points'] += 1
            for cpt in range(1, L):
                out, _ = call(plan, raw, {'chunks': [cpt, L - cpt]})
                evals += 1
                faults['split_response'] += 1
                if out != base:
                    flag('result-depends-on-chunking', why='split', cut=cpt)
                    break
        out, _ = call(plan, raw, {'chunks': [1] * L})
        evals += 1
        if out != base:
            flag('result-depends-on-chunking', why='trickle')
    elif k == 'all_cuts':
        probes['all_cut_offsets'] += 1
        for cpt in range(0, L):
            out, _ = call(plan, raw, {'cut': cpt})
            evals += 1
            faults['truncate_response'] += 1
            if out[0] == 'ok':
                flag('truncated-response-returned-data', why=None, cut=cpt,
                     length=L, returned=out[1])
                break
    elif k in ('reset', 'timeout'):
        at = min(tr['at'], L - 1)
        out, _ = call(plan, raw, {'fault': (k, at)})
        evals += 1
        faults[k] += 1
        probes[k] += 1
        if out[0] == 'ok':
            flag('interrupted-response-returned-data', why=k, at=at)
    elif k == 'corrupt':
        from sim import mutate, monitors
        from sim.props import c12
        import random as _random
        import struct as _struct
        rr = _random.Random(plan['seed'])
        variants = []
        for spec in tr['muts']:
            try:
                variants.append((spec, mutate.apply(raw, spec)))
            except Exception:
                continue
        # values that announce more bytes than are there, with every
        # enclosing length left intact (so the frame is delivered whole):
        # each byte / text string of the response in turn
        leaves = [n for n in t.parse(raw).walk() if n.type in (7, 8)]
        rr.shuffle(leaves)
        for n in leaves[:6]:
            ln = _struct.unpack_from('!I', raw, n.offset + 4)[0]
            for new in (ln + 8, ln + 16, max(8, 2 * ln), 4096, ln + 1):
                bad = bytearray(raw)
                _struct.pack_into('!I', bad, n.offset + 4, new)
                variants.append(({'kind': 'overrun_leaf', 'tag': hex(n.tag),
                                  'from': ln, 'to': new}, bytes(bad)))
        for spec, bad in variants:
            fr, left = monitors.split_frames(bad)
            if bad == raw or len(fr) != 1 or left:
                continue
            out, _ = call(plan, bad, {})
            evals += 1
            faults['corrupt_response'] += 1
            if c12.leaf_truncated(bad):
                probes['response_value_longer_than_container'] += 1
                if out[0] == 'ok':
                    flag('undecodable-response-returned-data',
                         why=spec.get('kind'), returned=out[1],
                         response=bad.hex()[:600])
    elif k == 'trailing':
        out, _ = call(plan, raw, {'trailing': b'\x42\x00\x7b\x01\x00\x00'})
        evals += 1
        faults['trailing_bytes'] += 1
        probes['trailing_bytes'] += 1
        if out != base:
            flag('trailing-bytes-changed-result', why=None)
    nontrivial = k != 'whole'
    digest = kernel.digest_of([raw, base, k])
    return {
        'violations': viol, 'nontrivial': nontrivial,
        'key': '%s/%s/%s/%s' % (op, ver, kernel.digest_of(raw), k),
        'digest': digest, 'faults': faults, 'probes': probes,
        'evals': evals, 'sim_s': 0.0, 'steps': evals,
        'sample': {'op': op, 'ver': ver, 'ok': plan['ok'],
                   'transport': k, 'response_len': L,
                   'result': base[:2]},
    }
