"""
C16 — protocol version is honoured: echo, refusal, feature gating.

The matrix version x operation x attribute x DiscoverVersions sub-list x
Query is swept completely: every supported version (1.0 .. 2.0) and a set
of unsupported ones, every operation with a valid request on a small store
of all object types, attribute names in templates and in GetAttributes /
GetAttributeList answers, every sub-list shape for DiscoverVersions, and
every operation Query advertises is then executed. Monitors are driven by
small tables written from the KMIP specifications (operation ->
introduced-in, attribute -> introduced / removed, tag -> introduced /
removed), not imported from the repository.
"""
import copy
import itertools

from sim import gen, kernel, reqs, world
from sim import ttlv_ref as t
from sim.props import c13

ID = 'C16'
LEVEL = 'exploration'
SUPPORTED = [(1, 0), (1, 1), (1, 2), (1, 3), (1, 4), (2, 0)]
UNSUPPORTED = [(0, 9), (1, 5), (1, 9), (2, 1), (3, 0), (0, 0), (9, 9)]
OPS = [o for o in c13.OPS if o != 'Unsupported']
PLANS = []
for _v in SUPPORTED + UNSUPPORTED:
    for _ot in gen.OTYPES:
        PLANS.append(('ops', _v, _ot))
PLANS.append(('engine_direct', (1, 2), None))
for _v in SUPPORTED:
    PLANS.append(('discover', _v, None))
    PLANS.append(('query', _v, None))
    PLANS.append(('attrs', _v, None))
    PLANS.append(('fields', _v, None))
# ... and a sampled pass: sessions speaking different versions served
# concurrently by one engine (threaded world, seeded schedules); every
# exchange is judged by the same gates under the version of ITS request
NCONC = {'quick': 80, 'thorough': 1500}
COUNT = {'quick': len(PLANS) + NCONC['quick'],
         'thorough': len(PLANS) * 6 + NCONC['thorough']}
BUDGET_S = {'quick': 60, 'thorough': 600}
DETERMINISM = {'quick': 12, 'thorough': 40}
CHUNK = 4
EXHAUSTIVE = {'quick': False, 'thorough': False}
RULE = ('complete sweep of %d matrix plans: (every supported and 7 '
        'unsupported versions) x (7 stored object types) x all 21 served '
        'operations with a valid request; per supported version all '
        'DiscoverVersions sub-list shapes (subsets of the six versions in '
        'ascending, descending and shuffled order, with unsupported '
        'entries), Query followed by execution of every advertised '
        'operation, every version-conditional attribute in a template, and '
        'a "fields" plan (AEAD / generated-IV Encrypt, wrapped Get, paged '
        'Locate, full Query, then 30 random requests) whose answers may '
        'carry optional fields. '
        'Every response frame is scanned for tags outside the client\'s '
        'version. Thorough repeats the sweep with other seeds for the '
        'values. The matrix is enumerated completely in every run; on top '
        'of it a SAMPLED pass (80 / 1500 plans) runs 2-3 sessions that '
        'speak different versions concurrently on one engine under seeded '
        'schedules (pre-emption points, lock-release yields), each exchange '
        'judged by the same gates under the version of its own request. '
        'Non-trivial: the request used an operation / attribute / '
        'version on the other side of a gate. Distinct = plan number.'
        % len(PLANS))
PROBES = ['concurrent_plans', 'concurrent_exchanges_judged',
          'concurrent_gated_refusals', 'whole_request_rejections', 'named_attribute_requests', 'gated_operation_refused', 'unsupported_version_refused',
          'discover_sublist', 'query_then_execute', 'tag_scan_frames',
          'gated_attribute_refused', 'response_version_echo',
          'aead_encrypt_answered']
REAL_VS_STUB = {
    'real': ['KmipSession.run threads of clients speaking different '
             'versions on one KmipEngine under the deterministic scheduler '
             '(concurrent pass)', 'KmipEngine version handling (_set_protocol_version, '
             '_kmip_version_supported, Query, DiscoverVersions)',
             'AttributePolicy version rules', 'KmipSession version echo',
             'TTLV encoder version branches'],
    'stub': ['TLS/clock/entropy/RSA pool as in the inline world'],
}
ASSUMPTIONS = [
    'spec tables: DiscoverVersions from 1.1; Encrypt/Decrypt/Sign/'
    'SignatureVerify/MAC from 1.2; SetAttribute from 2.0; Sensitive from '
    '1.4; Operation Policy Name and the TemplateAttribute structures gone '
    'in 2.0; tag introduction by range (1.1: 0x4200A2-B7, 1.2: 0xB8-D3, '
    '1.3: 0xD4-F3, 1.4: 0xF4-0x124, 2.0: 0x125-)',
    'the payload-field x version matrix inside the ~60 payload classes is '
    'seen only for fields that occur in this traffic',
]

OP_SINCE = {'DiscoverVersions': (1, 1), 'Encrypt': (1, 2), 'Decrypt': (1, 2),
            'Sign': (1, 2), 'SignatureVerify': (1, 2), 'MAC': (1, 2),
            'SetAttribute': (2, 0)}
ATTR_SINCE = {'Sensitive': (1, 4), 'Always Sensitive': (1, 4),
              'Extractable': (1, 4), 'Never Extractable': (1, 4),
              'Fresh': (1, 1), 'Digital Signature Algorithm': (1, 1),
              'Certificate Length': (1, 1)}
ATTR_GONE = {'Operation Policy Name': (2, 0)}
REMOVED_IN_2_0 = {0x420091, 0x42001F, 0x420065, 0x42006E, 0x42005D,
                  0x420090}


def tag_since(tag):
    if (tag >> 16) != 0x42:
        return (1, 0)
    n = tag & 0xFFFF
    if n >= 0x125:
        return (2, 0)
    if n >= 0xF4:
        return (1, 4)
    if n >= 0xD4:
        return (1, 3)
    if n >= 0xB8:
        return (1, 2)
    if n >= 0xA2:
        return (1, 1)
    return (1, 0)


def gen_concurrent(r, index):
    from sim import conc
    old = r.choice([(1, 0), (1, 0), (1, 1), (1, 2)])
    new = r.choice([(1, 4), (2, 0), (1, 4), (1, 3)])
    vers = [old, new]
    if r.random() < 0.4:
        vers.append(r.choice(SUPPORTED))
    r.shuffle(vers)
    actors = [{'cn': 'user%d' % i} for i in range(len(vers))]
    ctx = gen.Ctx(r, nactors=len(vers))
    scripts = []
    for ai, ver in enumerate(vers):
        first = conc.simple_keypair(ctx) if r.random() < 0.3 else \
            conc.simple_create(ctx)
        lab = '@' + first['label']
        items = [first]
        if r.random() < 0.5:
            # gated follow-ups inside the batch that holds the slow item
            items.append({'op': r.choice(['GetAttributeList',
                                          'GetAttributes'])})
            if r.random() < 0.5:
                items.append({'op': 'DiscoverVersions', 'versions': []})
        sc = [{'ver': list(ver), 'items': items, 'cont': 1}]
        for _ in range(r.randint(2, 5)):
            k = r.choice(['list', 'attrs', 'named', 'discover', 'query',
                          'encrypt', 'activate', 'create', 'set'])
            if k == 'list':
                op = {'op': 'GetAttributeList', 'uid': lab}
            elif k == 'attrs':
                op = {'op': 'GetAttributes', 'uid': lab}
            elif k == 'named':
                op = {'op': 'GetAttributes', 'uid': lab,
                      'names': ['Sensitive', 'State',
                                'Operation Policy Name']}
            elif k == 'discover':
                op = {'op': 'DiscoverVersions', 'versions': []}
            elif k == 'query':
                op = {'op': 'Query', 'funcs': [1, 2, 3]}
            elif k == 'encrypt':
                op = {'op': 'Encrypt', 'uid': lab, 'data': '00' * 16,
                      'cp': {'alg': 3, 'mode': 1, 'padding': 3},
                      'iv': '11' * 16}
            elif k == 'activate':
                op = {'op': 'Activate', 'uid': lab}
            elif k == 'set':
                op = {'op': 'SetAttribute', 'uid': lab,
                      'attr': A_('Sensitive', True)}
            else:
                op = conc.simple_create(ctx)
                op['attrs'].append(A_('Sensitive', True))
            sc.append({'ver': list(ver), 'items': [op]})
        scripts.append(sc)
    return conc.plan_of(r, index, actors, scripts)


def A_(n, v):
    return gen.A(n, v)


def judge_exchange(ver, op, it, raw, flag, probes):
    """The version gates on one request item and its answer."""
    name = op['op']
    since = OP_SINCE.get(name)
    if since and ver < since:
        probes['concurrent_gated_refusals'] += 1
        if it['status'] == 0:
            flag('operation-newer-than-version-accepted', why=name,
                 version=ver, how='concurrent')
    if it['status'] != 0:
        return
    if name in ('GetAttributes', 'GetAttributeList'):
        names = [a[0] for a in it['payload'].get('attrs') or []] + \
            list(it['payload'].get('names') or [])
        for n in names:
            if n in ATTR_SINCE and ver < ATTR_SINCE[n]:
                flag('attribute-newer-than-version-reported', why=n,
                     version=ver, how='concurrent')
            if n in ATTR_GONE and ver >= ATTR_GONE[n]:
                flag('attribute-removed-in-version-reported', why=n,
                     version=ver, how='concurrent')
    if name == 'Create' and any(
            a['n'] in ATTR_SINCE and ver < ATTR_SINCE[a['n']]
            for a in op.get('attrs', [])):
        flag('attribute-outside-version-accepted', why='Create',
             version=ver, how='concurrent')
    if name == 'DiscoverVersions':
        got = [tuple(v) for v in it['payload'].get('versions', [])]
        if got != sorted(SUPPORTED, reverse=True):
            flag('discover-versions-wrong-set', why='concurrent', got=got)
    if name == 'Query':
        for num in it['payload'].get('operations', []):
            nm = t.OPERATION.get(num)
            if nm in OP_SINCE and ver < OP_SINCE[nm]:
                flag('query-advertises-operation-newer-than-version',
                     why=nm, version=ver, how='concurrent')


def execute_concurrent(plan):
    from sim.props import c10
    probes = dict((p, 0) for p in PROBES)
    mine = []

    def flag(oracle, **det):
        mine.append({'sig': {'oracle': oracle, 'why': det.get('why')},
                     'detail': det})

    def judge(pl, complete, own, resolve):
        for h in complete:
            resp = h.get('resp')
            if resp is None or h.get('sent') is None:
                continue
            ver = tuple(h['req']['ver'])
            probes['concurrent_exchanges_judged'] += 1
            it0 = resp.items[0] if resp.items else None
            undecodable = it0 is not None and it0['op'] is None and \
                it0['reason_name'] == 'InvalidMessage' and \
                tuple(resp.version or ()) == (1, 0)
            if resp.version is not None and tuple(resp.version) != ver \
                    and not undecodable:
                flag('response-in-other-version', why='concurrent',
                     version=ver, got=resp.version)
            scan_tags(h['sent'], ver, flag, probes,
                      'concurrent:' + '+'.join(
                          o['op'] for o in h['req']['items']))
            for op, it in zip(h['req']['items'], resp.items):
                judge_exchange(ver, op, it, h['sent'], flag, probes)
    res = c10.execute(plan, judge=judge, linearize=False)
    probes['concurrent_plans'] = 1
    res['violations'] = mine
    res['probes'] = probes
    res['key'] = 'concurrent/' + res['key']
    res['nontrivial'] = bool(res.get('faults', {}).get('lock_contention'))
    res['sample'] = {'kind': 'concurrent',
                     'versions': [sc[0]['ver'] for sc in plan['scripts']],
                     'clients': [[[o['op'] for o in rq['items']]
                                  for rq in sc] for sc in plan['scripts']],
                     'preempts': plan['preempts']}
    return res


SHRINK_LISTS = ['preempts', 'tiebreaks']


def simplify(plan):
    if plan.get('kind') == 'concurrent':
        from sim.props import c10
        for c in c10.simplify(plan):
            yield c


def generate(rng, tier, index):
    nm = len(PLANS) * (6 if tier == 'thorough' else 1)
    if index >= nm:
        return gen_concurrent(rng, index - nm)
    kind, ver, ot = PLANS[index % len(PLANS)]
    return {'kind': kind, 'ver': list(ver), 'otype': ot,
            'seed': rng.randrange(1 << 30), 'rep': index // len(PLANS)}


def scan_tags(raw, ver, flag, probes, what):
    probes['tag_scan_frames'] += 1
    try:
        tree = t.parse(raw)
    except t.TTLVError as e:
        flag('malformed-response', why=str(e)[:60])
        return
    KWD = t.TAG['KEY_WRAPPING_DATA']

    def visit(n, in_kwd):
        ts = tag_since(n.tag)
        if ts > ver:
            # Known finding: key wrapping data is written as stored /
            # as asked for, whatever the client's version. Identified by
            # the place (inside Key Wrapping Data); a newer tag anywhere
            # else keeps its own signature.
            flag('tag-newer-than-client-version',
                 why='inside Key Wrapping Data' if in_kwd else hex(n.tag),
                 tag=hex(n.tag), version=ver, request=what)
            return True
        if ver >= (2, 0) and n.tag in REMOVED_IN_2_0:
            flag('tag-removed-in-client-version', why=hex(n.tag),
                 version=ver, request=what)
            return True
        for c in n.children():
            if visit(c, in_kwd or n.tag == KWD):
                return True
        return False
    visit(tree, False)


def execute(plan):
    import random
    if plan.get('kind') == 'concurrent':
        return execute_concurrent(plan)
    r = random.Random(plan['seed'])
    probes = dict((p, 0) for p in PROBES)
    viol = []
    ver = tuple(plan['ver'])
    W = world.World([{'cn': 'owner'}, {'cn': 'x', 'cns': ['a', 'b']}], None,
                    seed=plan['seed'])
    nontrivial = False
    results = []

    def flag(oracle, **det):
        viol.append({'sig': {'oracle': oracle, 'why': det.get('why')},
                     'detail': det})

    def send(op, v=None, what=None):
        v = v or ver
        before = W.dump()
        resp = W.request({'actor': 0, 'ver': list(v), 'items': [op]})
        sent = W.last['sent']
        for raw in sent:
            if tuple(v) in SUPPORTED:
                scan_tags(raw, tuple(v), flag, probes, what or op['op'])
        return resp, before

    try:
        ctx = gen.Ctx(r, nactors=1)
        if plan['kind'] == 'ops':
            ot = plan['otype']
            for st in c13.setup_steps(ot, 'Active', r, ctx):
                W.request(copy.deepcopy(st))
            supported = ver in SUPPORTED
            for name in OPS:
                op = c13.variant(name, ot, ver if supported else (1, 2), 0,
                                 r, ctx)
                resp, before = send(op)
                if resp is None or not resp.items:
                    if W.last['escape'] and 'attributes list' in \
                            W.last['escape']:
                        continue        # known finding (C08/C12)
                    flag('no-response', why=W.last['escape'], op=name,
                         version=ver)
                    continue
                it = resp.items[0]
                results.append((name, it['status'], it['reason']))
                if not supported:
                    probes['unsupported_version_refused'] += 1
                    nontrivial = True
                    if any(i['status'] == 0 for i in resp.items):
                        flag('unsupported-version-accepted', why=name,
                             version=ver)
                    if W.dump() != before:
                        flag('unsupported-version-request-had-effect',
                             why=name, version=ver)
                    continue
                # (1) echo
                if resp.version is not None and \
                        tuple(resp.version) != ver and not (
                            it['op'] is None and
                            it['reason_name'] == 'InvalidMessage' and
                            tuple(resp.version) == (1, 0)):
                    flag('response-in-other-version', why=name, version=ver,
                         got=resp.version)
                else:
                    probes['response_version_echo'] += 1
                # (2) gating
                since = OP_SINCE.get(name)
                if since and ver < since:
                    nontrivial = True
                    probes['gated_operation_refused'] += 1
                    if it['status'] == 0:
                        flag('operation-newer-than-version-accepted',
                             why=name, version=ver)
                    if W.dump() != before:
                        flag('gated-operation-had-effect', why=name,
                             version=ver)
                # (3) attributes reported
                if name in ('GetAttributes', 'GetAttributeList') and \
                        it['status'] == 0:
                    names = [a[0] for a in it['payload'].get('attrs', [])] \
                        + list(it['payload'].get('names', []))
                    for n in names:
                        if n in ATTR_SINCE and ver < ATTR_SINCE[n]:
                            flag('attribute-newer-than-version-reported',
                                 why=n, version=ver)
                        if n in ATTR_GONE and ver >= ATTR_GONE[n]:
                            flag('attribute-removed-in-version-reported',
                                 why=n, version=ver)
            # all attributes, read back under this version
            if supported:
                resp, _ = send({'op': 'GetAttributeList', 'uid': '@x'})
        elif plan['kind'] == 'fields':
            # optional response fields: what the server may put into an
            # answer depends on what was computed (authentication tag,
            # generated IV, located-items count, wrapped key, ...), not on
            # what this client's version can carry. Directed AEAD / IV
            # requests, then a random history, everything under `ver`.
            for st in c13.setup_steps('SymmetricKey', 'Active', r, ctx):
                W.request(copy.deepcopy(st))
            directed_ops = [
                {'op': 'Encrypt', 'uid': '@x', 'data': '00' * 20,
                 'cp': {'alg': 3, 'mode': 9, 'tag_len': 16},
                 'iv': '11' * 12},
                {'op': 'Encrypt', 'uid': '@x', 'data': '00' * 16,
                 'cp': {'alg': 3, 'mode': 9, 'tag_len': 12}},
                {'op': 'Encrypt', 'uid': '@x', 'data': '00' * 16,
                 'cp': {'alg': 3, 'mode': 1, 'padding': 3}},
                {'op': 'Encrypt', 'uid': '@x', 'data': '00' * 16,
                 'cp': {'alg': 3, 'mode': 6}},
                {'op': 'Locate', 'attrs': [], 'max': 1},
                {'op': 'Get', 'uid': '@x', 'wrapspec': {
                    'method': 1, 'enc': {'uid': '@w', 'cp': {
                        'mode': 0xD}}, 'encoding': 1}},
                {'op': 'Query', 'funcs': list(range(1, 13))},
            ]
            for op in directed_ops:
                resp, _ = send(copy.deepcopy(op), what='fields:' + op['op'])
                if resp is not None and resp.items:
                    it = resp.items[0]
                    results.append((op['op'], it['status'], it['reason']))
                    if op['op'] == 'Encrypt' and op['cp'].get('mode') == 9 \
                            and it['status'] == 0:
                        probes['aead_encrypt_answered'] += 1
                        nontrivial = True
            hctx = gen.Ctx(r, nactors=1)
            hctx.versions = [ver]
            for _ in range(30):
                rq = gen.gen_request(hctx, actor=0, ver=ver)
                rq.pop('ts', None)
                W.request(copy.deepcopy(rq))
                for raw in W.last['sent']:
                    scan_tags(raw, ver, flag, probes,
                              'history:' + '+'.join(
                                  o['op'] for o in rq['items']))
                results.append([o['op'] for o in rq['items']])
        elif plan['kind'] == 'attrs':
            # version-conditional attributes in templates
            for n, since in sorted(ATTR_SINCE.items()) + \
                    sorted(ATTR_GONE.items()):
                if n not in reqs.ATTRS or reqs.ATTRS[n][1] not in (
                        'bool', 'text', 'enum', 'int'):
                    continue
                kind = reqs.ATTRS[n][1]
                val = {'bool': True, 'text': 'default', 'enum': 1,
                       'int': 1}[kind]
                op = gen.gen_create(ctx, ver, 0)
                op['attrs'] = [a for a in op['attrs'] if a['n'] != n] + [
                    gen.A(n, val)]
                resp, before = send(op, what='Create+' + n)
                if resp is None or not resp.items:
                    continue
                it = resp.items[0]
                newer = n in ATTR_SINCE and ver < ATTR_SINCE[n]
                gone = n in ATTR_GONE and ver >= ATTR_GONE[n]
                if newer or gone:
                    nontrivial = True
                    probes['gated_attribute_refused'] += 1
                    if it['status'] == 0:
                        flag('attribute-outside-version-accepted', why=n,
                             version=ver)
                    if W.dump() != before:
                        flag('gated-attribute-had-effect', why=n,
                             version=ver)
                results.append((n, it['status'], it['reason']))
            # ... and in requests that NAME the attribute: an object that has
            # Sensitive (stored under 1.4) and a policy name (stored under
            # 1.2) is asked for them by name, and asked to change them,
            # under this version
            reg = gen.gen_register(ctx, (1, 4), 0, 'SymmetricKey')
            reg['label'] = 'named'
            reg['attrs'] = [a for a in reg['attrs'] if a['n'] not in (
                'Sensitive', 'Operation Policy Name')] + [
                gen.A('Sensitive', True),
                gen.A('Operation Policy Name', 'default')]
            send(reg, v=(1, 4), what='Register(named)')
            for n in ('Sensitive', 'Operation Policy Name'):
                newer = n in ATTR_SINCE and ver < ATTR_SINCE[n]
                gone = n in ATTR_GONE and ver >= ATTR_GONE[n]
                resp, before = send({'op': 'GetAttributes', 'uid': '@named',
                                     'names': [n, 'State']},
                                    what='GetAttributes[' + n + ']')
                if resp is not None and resp.items and \
                        resp.items[0]['status'] == 0:
                    got = [a[0] for a in
                           resp.items[0]['payload'].get('attrs') or []]
                    probes['named_attribute_requests'] += 1
                    if (newer or gone) and n in got:
                        flag('attribute-outside-version-reported', why=n,
                             version=ver, how='by name')
                    results.append(('named', n, sorted(got)))
                if n == 'Sensitive' and newer:
                    for op in ({'op': 'ModifyAttribute', 'uid': '@named',
                                'attr': gen.A('Sensitive', False)},
                               {'op': 'DeleteAttribute', 'uid': '@named',
                                'name': 'Sensitive'}):
                        resp, before = send(op, what=op['op'] + '[' + n +
                                            ']')
                        if resp is None or not resp.items:
                            continue
                        if resp.items[0]['status'] == 0:
                            flag('attribute-outside-version-accepted',
                                 why=n, version=ver, how=op['op'])
                        if W.dump() != before:
                            flag('gated-attribute-had-effect', why=n,
                                 version=ver, how=op['op'])
            # ... and requests the server refuses as a whole (before or
            # instead of executing any item) are answered in their version
            # too
            if ver in SUPPORTED:
                q = {'op': 'Query', 'funcs': [1]}
                rejections = [
                    ('async', {'actor': 0, 'items': [q], 'async': True}),
                    ('stale', {'actor': 0, 'items': [q], 'ts': -500}),
                    ('future', {'actor': 0, 'items': [q], 'ts': 500}),
                    ('undo', {'actor': 0, 'items': [q], 'cont': 3}),
                    ('missing-id', {'actor': 0, 'items': [q, dict(q)],
                                    'ids': ['01', None]}),
                    ('two-common-names', {'actor': 1, 'items': [q]}),
                    ('too-large', {'actor': 0, 'items': [q], 'maxresp': 40}),
                ]
                for why, rq in rejections:
                    rq['ver'] = list(ver)
                    resp = W.request(rq)
                    probes['whole_request_rejections'] += 1
                    if resp is None or not resp.items:
                        continue
                    if resp.items[0]['status'] == 0:
                        continue
                    if tuple(resp.version) != ver:
                        flag('rejection-answered-in-another-version',
                             why=why, version=ver,
                             answered=list(resp.version))
        elif plan['kind'] == 'discover':
            if ver < (1, 1):
                resp, before = send({'op': 'DiscoverVersions',
                                     'versions': []})
                if resp is not None and resp.items and \
                        resp.items[0]['status'] == 0:
                    flag('operation-newer-than-version-accepted',
                         why='DiscoverVersions', version=ver)
            else:
                lists = [[]]
                for k in (1, 2, 3, 6):
                    for _ in range(4):
                        sub = r.sample(SUPPORTED, k)
                        lists.append(sub)
                        lists.append(sorted(sub))
                        lists.append(sorted(sub, reverse=True))
                        lists.append(sub + [r.choice(UNSUPPORTED)])
                        lists.append([r.choice(UNSUPPORTED)] + sorted(sub))
                lists.append(list(UNSUPPORTED))
                for lst in lists:
                    probes['discover_sublist'] += 1
                    resp, _ = send({'op': 'DiscoverVersions',
                                    'versions': [list(v) for v in lst]})
                    if resp is None or not resp.items or \
                            resp.items[0]['status'] != 0:
                        flag('discover-versions-failed', why=None,
                             asked=lst)
                        continue
                    got = [tuple(v) for v in
                           resp.items[0]['payload'].get('versions', [])]
                    results.append(got)
                    want = set(SUPPORTED) if not lst else \
                        set(tuple(v) for v in lst) & set(SUPPORTED)
                    if set(got) - set(SUPPORTED):
                        flag('discover-versions-lists-unsupported',
                             why=None, got=got)
                    if set(got) != want or len(got) != len(set(got)):
                        flag('discover-versions-wrong-set', why=None,
                             asked=lst, got=got)
                    if got != sorted(got, reverse=True):
                        nontrivial = True
                        flag('discover-versions-not-newest-first',
                             why=None, asked=lst, got=got)
                    # each listed version is then actually accepted
                    for v in got:
                        rr, _ = send({'op': 'Query', 'funcs': [1]}, v=v)
                        if rr is None or not rr.items or \
                                rr.items[0]['status'] != 0 or \
                                tuple(rr.version) != v:
                            flag('discovered-version-not-accepted',
                                 why=str(v))
                nontrivial = True
        elif plan['kind'] == 'engine_direct':
            # The decoder refuses every request in a version it has no
            # enumeration for, so on the wire the engine's own version
            # check is never the deciding one. Drive the engine's public
            # entry directly (as the session does after decoding) with
            # request objects in unsupported versions: repeated, alternating
            # and after supported ones.
            from kmip.core import enums as E_
            from kmip.core import exceptions as X_
            from kmip.core.messages import contents, messages, payloads
            for st in c13.setup_steps('SymmetricKey', 'Active', r, ctx):
                W.request(copy.deepcopy(st))

            def direct(v, what):
                hdr = messages.RequestHeader(
                    protocol_version=contents.ProtocolVersion(v[0], v[1]),
                    batch_count=contents.BatchCount(1))
                if what == 'Query':
                    pl = payloads.QueryRequestPayload(
                        [E_.QueryFunction.QUERY_OPERATIONS])
                    opn = E_.Operation.QUERY
                else:
                    pl = payloads.DestroyRequestPayload(
                        unique_identifier=__import__(
                            'kmip.core.attributes', fromlist=['x']
                        ).UniqueIdentifier(W.resolve('@x')))
                    opn = E_.Operation.DESTROY
                msg = messages.RequestMessage(
                    request_header=hdr, batch_items=[
                        messages.RequestBatchItem(
                            operation=contents.Operation(opn),
                            request_payload=pl)])
                before = W.dump()
                try:
                    resp, _, pv = W.engine.process_request(
                        msg, ('owner', None))
                    ok = any(bi.result_status.value ==
                             E_.ResultStatus.SUCCESS
                             for bi in resp.batch_items)
                    out = ('answered', ok, str(pv))
                except X_.KmipError as e:
                    out = ('refused', type(e).__name__)
                return out, W.dump() != before
            seqs = []
            for uv in UNSUPPORTED:
                seqs.append([uv, uv, uv])
                seqs.append([(1, 2), uv, uv, (2, 0), uv])
                seqs.append([uv, UNSUPPORTED[0], uv, uv])
            for seq in seqs:
                for i, v in enumerate(seq):
                    for what in ('Query', 'Destroy'):
                        out, changed = direct(v, what)
                        results.append((v, what, out))
                        if tuple(v) in SUPPORTED:
                            continue
                        probes['unsupported_version_refused'] += 1
                        if out[0] != 'refused' or changed:
                            flag('unsupported-version-accepted-by-engine',
                                 why=what, version=v, sequence=seq,
                                 position=i, outcome=out,
                                 store_changed=changed)
                    if what == 'Destroy' and '@x' and \
                            W.resolve('@x') not in [
                                str(rw[0]) for rw in
                                W.dump().get('managed_objects', [])]:
                        break
            nontrivial = True
        elif plan['kind'] == 'query':
            for st in c13.setup_steps('SymmetricKey', 'Active', r, ctx):
                W.request(copy.deepcopy(st))
            resp, _ = send({'op': 'Query', 'funcs': [1, 2, 3]})
            if resp is None or not resp.items or \
                    resp.items[0]['status'] != 0:
                flag('query-failed', why=None, version=ver)
            else:
                ops = resp.items[0]['payload'].get('operations', [])
                results.append(ops)
                for num in ops:
                    name = t.OPERATION.get(num)
                    since = OP_SINCE.get(name)
                    if since and ver < since:
                        flag('query-advertises-operation-newer-than-version',
                             why=name, version=ver)
                    if name not in OPS:
                        continue
                    probes['query_then_execute'] += 1
                    op = c13.variant(name, 'SymmetricKey', ver, 0, r, ctx)
                    rr, _ = send(op)
                    if rr is None or not rr.items:
                        continue
                    if rr.items[0]['reason_name'] == \
                            'OperationNotSupported':
                        flag('advertised-operation-not-available',
                             why=name, version=ver)
                nontrivial = True
        digest = kernel.digest_of([W.trace, results])
        return {
            'violations': viol, 'nontrivial': nontrivial,
            'key': '%s/%s/%s/%d' % (plan['kind'], ver, plan['otype'],
                                    plan.get('rep', 0)),
            'digest': digest, 'faults': {}, 'probes': probes,
            'sim_s': 0.0, 'steps': W.requests,
            'sample': {'kind': plan['kind'], 'ver': ver,
                       'otype': plan['otype'], 'results': results[:6]},
        }
    finally:
        W.close()


def directed(tier):
    return []
