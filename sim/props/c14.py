"""
C14 — Locate returns exactly the permitted, matching objects, newest
first; offset/maximum select the corresponding slice.

Stores of 0-12 objects (all types, 3 owners, several policies, states,
names, groups, application information, sensitive flag) are created under a
scripted clock producing distinct dates, same-second ties and backward
jumps. Every requester then issues Locate requests with conjunctions of
0-3 filters, one or two Initial Date filters and offset/maximum pairs; the
answer is compared with the reference model evaluated on the stored rows.
"""
import copy

from sim import gen, kernel, model, world

ID = 'C14'
LEVEL = 'exploration'
COUNT = {'quick': 1500, 'thorough': 30000}
BUDGET_S = {'quick': 80, 'thorough': 840}
DETERMINISM = {'quick': 16, 'thorough': 100}
CHUNK = 8
RULE = ('plan = store-building history under a scripted clock (steps of 0 '
        's = ties, 1-5 s, backward jumps) + 4-10 Locate requests by every '
        'requester with 0-3 attribute filters drawn from the store and '
        'near-misses (incl. filters not applicable to some stored types), '
        '0-2 Initial Date filters, offset/maximum in 0..n+1, under KMIP '
        '1.0-2.0. Non-trivial: >= 2 object types stored, a date tie or '
        'jump, and a request with >= 2 filters. Distinct = trace digest.')
PROBES = ['negative_paging_number', 'attribute_edit_before_locate', 'undecodable_request', 'date_tie', 'backward_jump', 'two_date_filters', 'paged',
          'filter_not_applicable_to_some_type', 'empty_result',
          'requester_with_groups', 'multi_filter', 'nonempty_result']
REAL_VS_STUB = {
    'real': ['KmipEngine._process_locate, access filtering, date logic',
             'KmipSession + SLUGS connector', 'SQLAlchemy+SQLite'],
    'stub': ['clock -> scripted SimClock', 'SLUGS HTTP service',
             'TLS/entropy/RSA pool'],
}
ASSUMPTIONS = [
    'an object matches a filter iff it has that attribute with that value '
    '(all mask bits for Cryptographic Usage Mask, membership for the '
    'multi-valued attributes, inclusive range for two Initial Dates)',
    'permission to locate is the C03 decision function (docs tables for '
    'the built-in policies)',
    'objects with equal Initial Date may come in either order, but the '
    'same order in repeated requests',
    'name filters use name type Uninterpreted Text String only',
]

OT_NUM = {'CERTIFICATE': 1, 'SYMMETRIC_KEY': 2, 'PUBLIC_KEY': 3,
          'PRIVATE_KEY': 4, 'SPLIT_KEY': 5, 'SECRET_DATA': 7,
          'OPAQUE_DATA': 8}
HAS_STATE = ('CERTIFICATE', 'SYMMETRIC_KEY', 'PUBLIC_KEY', 'PRIVATE_KEY',
             'SPLIT_KEY', 'SECRET_DATA')
IS_KEY = ('SYMMETRIC_KEY', 'PUBLIC_KEY', 'PRIVATE_KEY', 'SPLIT_KEY')


UNSTORED = ['Activation Date', 'Deactivation Date', 'Last Change Date',
            'Contact Information', 'Fresh', 'Lease Time']


def matches(o, f):
    n, v = f['n'], f['v']
    t = o['otype']
    if n == 'Object Type':
        return OT_NUM.get(t) == v
    if n == 'State':
        return t in HAS_STATE and o['state'] == v
    if n == 'Cryptographic Algorithm':
        return t in IS_KEY and o['alg'] == v
    if n == 'Cryptographic Length':
        return t in IS_KEY and o['len'] == v
    if n == 'Cryptographic Usage Mask':
        return t in HAS_STATE and o['mask'] is not None and \
            (o['mask'] & v) == v
    if n == 'Operation Policy Name':
        return o['policy'] == v
    if n == 'Object Group':
        return v in o['groups']
    if n == 'Name':
        return v[0] in o['names']
    if n == 'Application Specific Information':
        return list(v) in [list(x) for x in o['app']]
    if n == 'Certificate Type':
        return t == 'CERTIFICATE' and o.get('ctype') == v
    if n == 'Unique Identifier':
        return o['uid'] == v
    if n == 'Sensitive':
        return bool(o['sensitive']) == bool(v)
    if n[:2] in ('x-', 'y-') or n in UNSTORED:
        return False
    raise ValueError(n)


def expected(view, store, user, groups, filters):
    dates = [f['v'] for f in filters if f['n'] == 'Initial Date']
    rest = [f for f in filters if f['n'] != 'Initial Date']
    out = []
    for o in view.values():
        if not model.grants(store, o['policy'], user, groups, o['owner'],
                            o['otype'], 'LOCATE'):
            continue
        if not all(matches(o, f) for f in rest):
            continue
        if len(dates) == 1 and o['initial_date'] != dates[0]:
            continue
        if len(dates) == 2 and not (min(dates) <= o['initial_date']
                                    <= max(dates)):
            continue
        out.append(o)
    return out


def gen_filters(r, ctx_objs_guess, ver):
    fl = []
    k = r.choice([0, 1, 1, 2, 2, 3])
    names = ['Object Type', 'State', 'Cryptographic Algorithm',
             'Cryptographic Length', 'Cryptographic Usage Mask',
             'Operation Policy Name', 'Object Group', 'Name',
             'Application Specific Information', 'Certificate Type',
             'Unique Identifier']
    if ver >= (1, 4):
        names.append('Sensitive')
    if ver >= (2, 0):
        names.remove('Operation Policy Name')
    if ver < (2, 0) and r.random() < 0.12:
        # a custom (vendor) attribute: no stored object can have one, so a
        # filter on it matches nothing - it must not be ignored
        names.append('x-purpose')
        k = max(k, 1)
        picked = r.sample(names[:-1], k - 1) + ['x-purpose']
        r.shuffle(picked)
    else:
        picked = r.sample(names, k)
    if r.random() < 0.08:
        # an attribute of the specification the server does not store on
        # any object: no stored object has it, so nothing matches
        picked = picked + [r.choice(UNSTORED)]
    for n in picked:
        if n in UNSTORED:
            fl.append(gen.A(n, {'Contact Information': 'someone',
                                'Fresh': True, 'Lease Time': 3600}.get(
                                    n, 1500000000)))
            continue
        if n == 'x-purpose':
            fl.append(gen.A(r.choice(['x-purpose', 'y-owner', 'x-1']),
                            'backup', k='text'))
            continue
        if n == 'Object Type':
            v = r.choice([1, 2, 2, 3, 4, 5, 7, 8])
        elif n == 'State':
            v = r.choice([1, 1, 2, 3, 4])
        elif n == 'Cryptographic Algorithm':
            v = r.choice([3, 3, 2, 4, 0x10])
        elif n == 'Cryptographic Length':
            v = r.choice([128, 192, 256, 1024, 64])
        elif n == 'Cryptographic Usage Mask':
            v = r.choice([4, 8, 12, 1, 2, 0x200, 0x21c, 3, 4, 8, 12,
                          # bits no usage mask value defines: no object has
                          # them, so nothing matches
                          0x40000000, 0x40000004, 0x100000, -1])
        elif n == 'Operation Policy Name':
            v = r.choice(['default', 'pA', 'pB', 'nosuch'])
        elif n == 'Object Group':
            v = r.choice(['g1', 'g2', 'grp-x', 'none'])
        elif n == 'Name':
            v = ['name-%d' % r.randrange(1, 12), 1]
        elif n == 'Application Specific Information':
            v = ['ns%d' % r.randrange(3), 'data%d' % r.randrange(6)]
        elif n == 'Certificate Type':
            v = r.choice([1, 1, 2])
        elif n == 'Unique Identifier':
            v = str(r.randrange(1, 10))
        else:
            v = r.random() < 0.5
        fl.append(gen.A(n, v))
    return fl


def generate(rng, tier, index):
    r = rng
    nact = 3
    actors = [{'cn': 'user%d' % i} for i in range(nact)]
    if r.random() < 0.3:
        for a in actors:
            a['groups'] = r.choice([None, ['g1'], ['g1', 'g2'], []])
    all_locate = dict((ot, {'LOCATE': 'ALLOW_ALL', 'GET': 'ALLOW_OWNER',
                            'GET_ATTRIBUTES': 'ALLOW_OWNER'})
                      for ot in OT_NUM)
    policies = {'pA': {'preset': all_locate,
                       'groups': {'g1': all_locate}},
                'pB': {'preset': dict((ot, {'LOCATE': r.choice(
                    ['ALLOW_ALL', 'ALLOW_OWNER', 'DISALLOW_ALL'])})
                    for ot in OT_NUM if r.random() < 0.8)}}
    ctx = gen.Ctx(r, nactors=nact,
                  policies=['default', 'pA', 'pA', 'pB', 'nosuch'])
    ctx.groups = ['g1', 'g2']
    steps = []
    for i in range(r.choice([0, 1, 2, 3, 4, 5, 6, 8, 10, 12])):
        a = r.randrange(nact)
        ver = r.choice([(1, 2), (1, 4), (1, 4)])
        x = r.random()
        if x < 0.35:
            op = gen.gen_create(ctx, ver, a, want_mask=12)
        elif x < 0.92:
            op = gen.gen_register(ctx, ver, a)
        else:
            op = gen.gen_keypair(ctx, ver, a)
        for at in op.get('attrs', []) + op.get('private', []) + \
                op.get('public', []):
            if at['n'] == 'Name':
                at['v'] = [at['v'][0].split('-é')[0], 1]
            if at['n'] == 'Application Specific Information':
                at['v'] = [at['v'][0], 'data%d' % r.randrange(6)]
        steps.append({'actor': a, 'ver': list(ver), 'items': [op]})
        if r.random() < 0.3:
            steps.append({'actor': a, 'ver': [1, 2], 'items': [
                {'op': 'Activate', 'uid': '@' + op['label']}]})
            if r.random() < 0.4:
                steps.append({'actor': a, 'ver': [1, 2], 'items': [
                    {'op': 'Revoke', 'uid': '@' + op['label'],
                     'code': r.choice([1, 2])}]})
        steps.append({'clock': r.choice([0, 0, 1, 1, 2, 5, -3, -1, 60])})
    # the owners then change a group / a name of some objects (objects with
    # exactly one instance, so that index 0 is unambiguous): what Locate
    # matches afterwards is what the clients set, object by object
    editable = []
    for st in steps:
        if 'items' not in st:
            continue
        op = st['items'][0]
        if op['op'] in ('Create', 'Register') and op.get('label'):
            for an in ('Object Group', 'Name'):
                inst = [a for a in op.get('attrs', []) if a['n'] == an]
                if len(inst) == 1:
                    editable.append((st['actor'], op['label'], an))
    r.shuffle(editable)
    for actor, lab, an in editable[:r.choice([0, 0, 1, 2, 3])]:
        nv = r.choice(ctx.groups + ['grp-x', 'moved']) if \
            an == 'Object Group' else ['renamed-%d' % r.randrange(99), 1]
        ver = r.choice([(1, 2), (1, 4), (2, 0)])
        if ver >= (2, 0):
            op = {'op': 'ModifyAttribute', 'uid': '@' + lab,
                  'new': gen.A(an, nv), 'cur_from_history': True}
        else:
            op = {'op': 'ModifyAttribute', 'uid': '@' + lab,
                  'attr': gen.A(an, nv, 0)}
        steps.append({'actor': actor, 'ver': list(ver), 'items': [op],
                      'edit': [lab, an, nv]})
    nq = r.randint(4, 10)
    for _ in range(nq):
        a = r.randrange(nact)
        ver = r.choice(gen.VERSIONS)
        fl = gen_filters(r, ctx.objs, ver)
        x = r.random()
        if x < 0.25:
            fl.append(gen.A('Initial Date', kernel.SimClock.EPOCH
                            + r.randrange(-3, 12), k='date'))
        elif x < 0.45:
            fl.append(gen.A('Initial Date', int(kernel.SimClock.EPOCH)
                            + r.randrange(-3, 8), k='date'))
            fl.append(gen.A('Initial Date', int(kernel.SimClock.EPOCH)
                            + r.randrange(-3, 70), k='date'))
            y = r.random()
            if y < 0.3:
                # open-ended ranges: "everything up to T" / "since T",
                # with the extreme bound in either position
                fl[-2 if r.random() < 0.5 else -1]['v'] = r.choice(
                    [0, 0, 1, 2 ** 31 - 1, 2 ** 32, 4102444800])
        for f in fl:
            if f['n'] == 'Initial Date':
                f['v'] = int(f['v'])
        r.shuffle(fl)
        op = {'op': 'Locate', 'attrs': fl}
        if r.random() < 0.4:
            op['max'] = r.choice([0, 1, 2, 3, 5, 13, 1, 2, 3, -1, -2])
        if ver >= (1, 3) and r.random() < 0.4:
            op['offset'] = r.choice([0, 1, 2, 3, 13, 1, 2, -1, -2, -13])
        steps.append({'actor': a, 'ver': list(ver), 'items': [op],
                      'locate': True})
    return {'actors': actors, 'policies': policies,
            'seed': r.randrange(1 << 30), 'steps': steps}


def execute(plan):
    probes = dict((p, 0) for p in PROBES)
    viol = []
    store = model.policy_store(plan['policies'])
    W = world.World(plan['actors'], plan['policies'], seed=plan['seed'])
    tie = jump = multi = False
    trace = []
    intended = {}

    def flag(oracle, **det):
        viol.append({'sig': {'oracle': oracle, 'why': det.get('why')},
                     'detail': det})

    try:
        for st in plan['steps']:
            if 'clock' in st:
                if st['clock'] == 0:
                    tie = True
                    probes['date_tie'] += 1
                if st['clock'] < 0:
                    jump = True
                    probes['backward_jump'] += 1
                W.clock.advance(st['clock'])
                continue
            if not st.get('locate'):
                rq = copy.deepcopy(st)
                op0 = rq['items'][0]
                if op0['op'] in ('Create', 'Register') and op0.get('label'):
                    intended[op0['label']] = {
                        'groups': sorted(a['v'] for a in op0.get('attrs', [])
                                         if a['n'] == 'Object Group'),
                        'names': sorted(a['v'][0] for a in
                                        op0.get('attrs', [])
                                        if a['n'] == 'Name')}
                if st.get('edit'):
                    lab, an, nv = st['edit']
                    key = 'groups' if an == 'Object Group' else 'names'
                    cur = (intended.get(lab) or {}).get(key) or []
                    if op0.pop('cur_from_history', None) and cur:
                        op0['cur'] = gen.A(an, cur[0] if an ==
                                           'Object Group' else [cur[0], 1])
                    resp_e = W.request(rq)
                    if resp_e is not None and resp_e.items and \
                            resp_e.items[0]['status'] == 0 and \
                            lab in intended and len(cur) == 1:
                        intended[lab][key] = [nv if an == 'Object Group'
                                              else nv[0]]
                        probes['attribute_edit_before_locate'] += 1
                    continue
                W.request(rq)
                continue
            view = model.store_view(W.db)
            # the stored attributes are what the request history set
            for lab, want in sorted(intended.items()):
                uid = W.labels.get(lab)
                o = view.get(uid)
                if o is None:
                    continue
                if sorted(o['groups']) != want['groups'] or \
                        sorted(o['names']) != want['names']:
                    flag('stored-attributes-differ-from-request-history',
                         why='groups' if sorted(o['groups']) !=
                         want['groups'] else 'names', uid=uid,
                         stored=[o['groups'], o['names']],
                         history=[want['groups'], want['names']])
                    intended.pop(lab)
            a = plan['actors'][st['actor']]
            op = st['items'][0]
            fl = op['attrs']
            resp = W.request(copy.deepcopy(st))
            resp2 = W.request(copy.deepcopy(st), record=False)
            if resp is None or not resp.items:
                flag('no-response', why=W.last['escape'])
                continue
            it = resp.items[0]
            exp = expected(view, store, a['cn'], a.get('groups'), fl)
            ndates = len([f for f in fl if f['n'] == 'Initial Date'])
            if ndates == 2:
                probes['two_date_filters'] += 1
            if len(fl) >= 2:
                multi = True
                probes['multi_filter'] += 1
            if a.get('groups') is not None:
                probes['requester_with_groups'] += 1
            types_in_view = set(o['otype'] for o in view.values())
            for f in fl:
                if f['n'] in ('State', 'Cryptographic Usage Mask') and \
                        'OPAQUE_DATA' in types_in_view or \
                        f['n'] in ('Cryptographic Algorithm',
                                   'Cryptographic Length') and \
                        types_in_view - set(IS_KEY):
                    probes['filter_not_applicable_to_some_type'] += 1
            if it['status'] != 0 and it['op'] is None and \
                    it['reason_name'] == 'InvalidMessage':
                # the decoder refused the request (e.g. a Certificate Type
                # filter under KMIP 2.0): nothing for Locate to answer
                probes['undecodable_request'] += 1
                continue
            neg = (op.get('offset') or 0) < 0 or (op.get('max') or 0) < 0
            if neg:
                # no slice corresponds to a negative number: refusal, or
                # nothing at all - never objects
                probes['negative_paging_number'] += 1
                if it['status'] == 0 and it['payload'].get('uids'):
                    flag('negative-paging-number-served', why=None,
                         offset=op.get('offset'), maximum=op.get('max'),
                         got=it['payload'].get('uids'))
                continue
            if it['status'] != 0:
                flag('locate-failed', why=it['reason_name'],
                     message=it['message'],
                     filters=[f['n'] for f in fl],
                     stored_types=sorted(types_in_view))
                continue
            got = it['payload'].get('uids', [])
            off = op.get('offset')
            mx = op.get('max')
            if off is not None or mx is not None:
                probes['paged'] += 1
            exp_ids = set(o['uid'] for o in exp)
            # order: initial date non-increasing; ties in any order
            dates = dict((o['uid'], o['initial_date']) for o in exp)
            exp_sorted = sorted(exp, key=lambda o: -o['initial_date'])
            lo = off or 0
            hi = len(exp) if mx is None else lo + mx
            want_slice = exp_sorted[lo:hi]
            unknown = [u for u in got if u not in exp_ids]
            groups_note = None
            if a.get('groups') is not None:
                # diagnose the documented-but-not-implemented fallback
                miss = exp_ids - set(got)
                if miss and all(
                        not (store.get(view[u]['policy']) or {}).get(
                            'groups') for u in miss):
                    groups_note = 'requester-has-groups-policy-has-none'
            if unknown:
                why_ = None
                stored_fl = [f for f in fl if f['n'] not in UNSTORED]
                if len(stored_fl) < len(fl):
                    # open known finding: a filter on an attribute the
                    # server does not store is ignored. Only when ignoring
                    # exactly those filters explains every extra object.
                    wo = set(o['uid'] for o in expected(
                        view, store, a['cn'], a.get('groups'), stored_fl))
                    if set(unknown) <= wo:
                        why_ = 'filter-on-attribute-the-server-does-not-store'
                flag('locate-returned-unexpected-object',
                     why=why_, got=got, expected=sorted(exp_ids),
                     filters=fl, identity=[a['cn'], a.get('groups')])
                continue
            if groups_note is None and any(f['n'] == 'Sensitive'
                                           for f in fl):
                groups_note = 'sensitive-filter'
            if off is None and mx is None:
                if set(got) != exp_ids:
                    flag('locate-missed-matching-object', why=groups_note,
                         got=got, expected=sorted(exp_ids), filters=fl,
                         identity=[a['cn'], a.get('groups')])
                    continue
            else:
                # a slice of the same ordered list: same length, and date
                # multiset equal to that of the expected slice
                if len(got) != len(want_slice) or \
                        sorted(dates[u] for u in got) != sorted(
                            o['initial_date'] for o in want_slice):
                    flag('wrong-page', why=groups_note, got=got, offset=off,
                         maximum=mx, full=[o['uid'] for o in exp_sorted],
                         filters=fl)
                    continue
            ds = [dates[u] for u in got]
            if any(ds[i] < ds[i + 1] for i in range(len(ds) - 1)):
                flag('not-newest-first', why=None, got=got, dates=ds)
            if len(set(got)) != len(got):
                flag('duplicate-in-result', why=None, got=got)
            if resp2 is not None and resp2.items and \
                    resp2.items[0]['payload'].get('uids', []) != got:
                flag('order-unstable-across-repeats', why=None)
            if got:
                probes['nonempty_result'] += 1
            else:
                probes['empty_result'] += 1
            trace.append(got)
        view = model.store_view(W.db)
        ntypes = len(set(o['otype'] for o in view.values()))
        nontrivial = ntypes >= 2 and (tie or jump) and multi
        digest = kernel.digest_of([W.trace, trace])
        return {
            'violations': viol, 'nontrivial': nontrivial, 'key': digest,
            'digest': digest, 'faults': {'clock_jump_back': int(jump),
                                         'clock_freeze': int(tie)},
            'probes': probes, 'states': [kernel.digest_of(sorted(view))],
            'sim_s': W.clock.covered(), 'steps': W.requests,
            'sample': {'stored': sorted(
                (o['uid'], o['otype'], o['initial_date'] -
                 int(kernel.SimClock.EPOCH)) for o in view.values()),
                'queries': [[(f['n'], f['v']) for f in
                             s['items'][0]['attrs']] + [
                    ('offset', s['items'][0].get('offset')),
                    ('max', s['items'][0].get('max'))]
                    for s in plan['steps'] if s.get('locate')][:4]},
        }
    finally:
        W.close()


def directed(tier):
    """Regressions for the repaired Locate defects."""
    reg = lambda lab, ot, obj, attrs: {'actor': 0, 'ver': [1, 4], 'items': [{
        'op': 'Register', 'label': lab, 'otype': ot, 'attrs': attrs,
        'obj': obj}]}
    key = reg('k', 'SymmetricKey', {'kft': 1, 'value': '11' * 16, 'alg': 3,
                                    'len': 128},
              [gen.A('Cryptographic Usage Mask', 12),
               gen.A('Sensitive', True)])
    cert = reg('c', 'Certificate', {'ctype': 1, 'value': gen.cert_value()},
               [gen.A('Cryptographic Usage Mask', 2)])
    loc = lambda a, fl, **kw: {'actor': a, 'ver': [1, 4], 'locate': True,
                               'items': [dict({'op': 'Locate', 'attrs': fl},
                                              **kw)]}
    return [
        # open known finding: filter on an attribute the server does not
        # store
        {'actors': [{'cn': 'user0'}, {'cn': 'user1'}, {'cn': 'user2'}],
         'policies': {}, 'seed': 5,
         'steps': [key, loc(0, [gen.A('Activation Date', 1500000000)])]},
        {'actors': [{'cn': 'user0'}, {'cn': 'user1'}, {'cn': 'user2'}],
         'policies': {}, 'seed': 3,
         'steps': [key, cert,
                   loc(0, [gen.A('Sensitive', True)]),
                   loc(0, [gen.A('Sensitive', False)]),
                   loc(0, [gen.A('Cryptographic Algorithm', 3)]),
                   loc(1, [gen.A('Cryptographic Length', 128)])]},
        {'actors': [{'cn': 'user0', 'groups': ['g1']},
                    {'cn': 'user1', 'groups': []},
                    {'cn': 'user2', 'groups': None}],
         'policies': {}, 'seed': 4,
         'steps': [key, cert, loc(0, []), loc(1, []), loc(2, []),
                   loc(0, [gen.A('Object Type', 2)], offset=0, max=1)]},
    ]
