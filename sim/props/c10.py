"""
C10 — concurrent sessions behave as if served one request at a time.

2-4 real KmipSession.run() threads share one real engine under the
deterministic scheduler; the plan fixes every context switch. Oracle:
linearizability by sequential re-execution of the real engine - the frames
actually sent are replayed one at a time on a fresh engine+database in a
witness order (order of lock acquisitions; other admissible orders are
searched on mismatch); every response and the final store must be equal.
"""
import copy
import itertools
import sqlite3

from sim import gen, kernel, mutate, reqs, threaded, world

ID = 'C10'
LEVEL = 'exploration'
COUNT = {'quick': 1500, 'thorough': 30000}
BUDGET_S = {'quick': 75, 'thorough': 840}
DETERMINISM = {'quick': 16, 'thorough': 120}
CHUNK = 6
SHRINK_LISTS = ['preempts', 'tiebreaks']
RULE = ('plan = 2-4 clients (distinct certificate identities, optionally '
        'group lists, distinct KMIP versions) each with a script of 2-5 '
        'requests against one engine + explicit schedule: 0-4 pre-emptions '
        '(task, n-th traced source line in engine.py/session.py/policy '
        'code, switch-to) and tie-breaks at blocking points. Non-trivial: '
        'at least one blocked lock acquisition (real contention) and two '
        'sessions that differ in identity and version. Distinct = distinct '
        'switch sequence (from, to, reason, file:line) x workload digest.')
PROBES = ['session_error_path_concurrent', 'contention', 'preempt_fired',
          'yield_at_lock_release', 'sessions_made_by_kmip_server', 'preempt_inside_engine',
          'preempt_inside_batch_loop', 'witness_order_search_used',
          'idless_in_batch', 'cross_owner_read', 'version_gated_op']
REAL_VS_STUB = {
    'real': ['KmipEngine (shared)', 'KmipSession.run() in real threads',
             'KmipServer.start/serve/_setup_connection_handler (every fifth '
             'plan: one engine shared by the sessions the server creates)',
             'the engine\'s own lock object usage (_synchronize)',
             'auth path incl. SLUGS connector', 'SQLAlchemy+SQLite'],
    'stub': ['thread scheduling -> baton-passing scheduler driven by the '
             'plan', 'threading.RLock inside engine.py -> SimRLock',
             'SQLite busy timeout set to 0', 'TLS, clock (constant inside a '
             'run), entropy, RSA pool, SLUGS HTTP service'],
}
ASSUMPTIONS = ['pre-emption granularity is a source line of PyKMIP\'s own '
               'server modules (not inside SQLAlchemy/SQLite)',
               'schedules are sampled (PCT-style, depth <= 4), not '
               'enumerated']

MAX_POINT = 9000


def generate(rng, tier, index):
    r = rng
    nact = r.choice([2, 2, 3, 3, 4])
    actors = []
    use_groups = r.random() < 0.3
    for i in range(nact):
        a = {'cn': 'user%d' % i}
        if use_groups:
            a['groups'] = r.choice([None, ['g1'], ['g1', 'g2'], []])
        actors.append(a)
    policies = None
    pol_names = ['default', 'public']
    if r.random() < 0.5:
        policies = {'team': {
            'preset': {'SYMMETRIC_KEY': {
                'GET': 'ALLOW_OWNER', 'GET_ATTRIBUTES': 'ALLOW_ALL',
                'GET_ATTRIBUTE_LIST': 'ALLOW_ALL', 'LOCATE': 'ALLOW_ALL',
                'ACTIVATE': 'ALLOW_OWNER', 'DESTROY': 'ALLOW_OWNER',
                'REVOKE': 'ALLOW_OWNER', 'MODIFY_ATTRIBUTE': 'ALLOW_OWNER',
                'DELETE_ATTRIBUTE': 'ALLOW_OWNER'}},
            'groups': {'g1': {'SYMMETRIC_KEY': {
                'GET': 'ALLOW_ALL', 'GET_ATTRIBUTES': 'ALLOW_ALL',
                'LOCATE': 'ALLOW_ALL', 'DESTROY': 'ALLOW_OWNER',
                'ACTIVATE': 'ALLOW_ALL'}}}}}
        pol_names.append('team')
    ctx = gen.Ctx(r, nactors=nact, policies=pol_names)
    versions = [r.choice(gen.VERSIONS) for _ in range(nact)]
    if nact >= 2 and versions[0] == versions[1]:
        versions[1] = r.choice([v for v in gen.VERSIONS
                                if v != versions[0]])
    scripts = []
    for ai in range(nact):
        ver = versions[ai]
        sc = []
        for j in range(r.randint(2, 5)):
            x = r.random()
            if j == 0 or x < 0.3:
                z = r.random()
                if z < 0.2 and ver >= (1, 0):
                    # slow, self-contained work inside a request (key pair
                    # generation) - the window in which a lock must not be
                    # given up
                    op = gen.gen_keypair(ctx, ver, ai)
                elif z < 0.3 and j > 0:
                    op = gen.gen_derive(ctx, ver, ai)
                else:
                    op = gen.gen_create(ctx, ver, ai, want_mask=12)
                items = [op]
                y = r.random()
                if y < 0.35:
                    # id-less follow-ups inside the same batch
                    items.append({'op': r.choice(
                        ['GetAttributes', 'Get', 'GetAttributeList'])})
                    if r.random() < 0.5:
                        items.append({'op': 'Destroy'})
                        ctx.objs.pop()
                elif y < 0.5:
                    items.append(gen.gen_register(ctx, ver, ai))
                sc.append({'ver': list(ver), 'items': items,
                           'cont': r.choice([None, 1, 2])})
            elif x < 0.65:
                # read own and others' objects: identity and version
                # decide the answer
                o = ctx.pick_obj(None, 0.05)
                name = r.choice(['Get', 'GetAttributes', 'GetAttributeList',
                                 'Locate', 'GetAttributes'])
                op = {'op': name}
                if name == 'Locate':
                    op['attrs'] = []
                else:
                    op['uid'] = ctx.ref(o)
                sc.append({'ver': list(ver), 'items': [op]})
            elif x < 0.8:
                sc.append({'ver': list(ver), 'items': [
                    gen.gen_lifecycle(ctx, ver, ai)]})
            elif x < 0.86:
                sc.append({'ver': list(ver), 'items': [
                    gen.gen_use(ctx, ver, ai)]})
            elif x < 0.93:
                # "stateless" requests (status probes): they read and write
                # the same per-request engine state as any other request
                sc.append({'ver': list(ver), 'items': [
                    gen.gen_misc(ctx, ver, ai)]})
            else:
                sc.append({'ver': list(ver), 'items': [
                    gen.gen_attr_op(ctx, ver, ai)]})
        scripts.append(sc)
    # session-level error paths running concurrently with normal requests:
    # the session builds those answers itself (engine.build_error_response)
    # without holding the engine lock
    if r.random() < 0.55:
        for _ in range(r.choice([1, 1, 2, 3])):
            ai = r.randrange(nact)
            rq = {'ver': list(versions[ai]), 'items': [
                {'op': 'Query', 'funcs': [1]}]}
            k = r.choice(['stale', 'future', 'too_large', 'badver',
                          'garbage', 'async'])
            if k == 'stale':
                rq['ts'] = -500
            elif k == 'future':
                rq['ts'] = 500
            elif k == 'too_large':
                rq['maxresp'] = r.choice([8, 64])
            elif k == 'badver':
                rq['ver'] = r.choice([[3, 0], [1, 9]])
            elif k == 'garbage':
                rq['mut'] = mutate.gen_spec(r)
            else:
                rq['async'] = True
            scripts[ai].insert(r.randrange(len(scripts[ai]) + 1), rq)
    if r.random() < 0.3:
        actors.append({'cn': 'nobody', 'nocert': True} if r.random() < 0.6
                      else {'cn': 'twocn', 'cns': ['a', 'b']})
        scripts.append([{'ver': [1, 2], 'items': [
            {'op': 'Query', 'funcs': [1]}]} for _ in range(r.choice([1, 2]))])
        nact += 1
    d = r.choice([0, 1, 1, 2, 2, 3, 3, 4, 5])
    preempts = []
    for _ in range(d):
        task = 's%d' % r.randrange(nact)
        # log-uniform position so that early points (header handling,
        # lock entry) and deep points (handlers) are both likely
        if r.random() < 0.5:
            pt = int(2 ** (r.random() * 13.1)) + r.randrange(3)
        else:
            pt = r.randrange(1, MAX_POINT)
        to = 's%d' % r.randrange(nact) if r.random() < 0.7 else None
        preempts.append([task, min(pt, MAX_POINT), to])
    tiebreaks = [r.randrange(4) for _ in range(r.choice([0, 2, 6, 12]))]
    # lock releases after which the releasing session yields to another
    # runnable one: none / every release / a few chosen ones
    y = r.random()
    ry = None if y < 0.35 else 'all' if y < 0.7 else \
        sorted(set(r.randrange(1, 14) for _ in range(r.choice([1, 2, 3]))))
    return {'actors': actors, 'policies': policies,
            'seed': r.randrange(1 << 30), 'scripts': scripts,
            'preempts': preempts, 'tiebreaks': tiebreaks,
            'release_yields': ry,
            # every fifth plan: engine and sessions as the real KmipServer
            # makes them (one engine shared by the sessions its connection
            # handler creates)
            'server': index % 5 == 4}


def owners(path):
    con = sqlite3.connect(path, timeout=0.5)
    try:
        return dict((str(a), b) for a, b in con.execute(
            'select uid, owner from managed_objects'))
    finally:
        con.close()


def sequential(plan, order):
    """Replay the recorded frames one at a time on a fresh engine."""
    w = world.World(plan['actors'], plan.get('policies'), seed=plan['seed'])
    try:
        out = {}
        for h in order:
            sent = w.send_raw(h['actor'], h['frame'])
            out[(h['actor'], h['idx'])] = sent
        return out, w.dump()
    finally:
        w.close()


def admissible_orders(hist, limit):
    """Linear extensions of per-client order + real-time precedence
    (a returned before b was invoked => a before b)."""
    n = len(hist)
    pred = [set() for _ in range(n)]
    for i, a in enumerate(hist):
        for j, b in enumerate(hist):
            if i == j:
                continue
            if a['actor'] == b['actor'] and a['idx'] < b['idx']:
                pred[j].add(i)
            elif a['ret'] is not None and b['invoke'] is not None and \
                    a['ret'] < b['invoke']:
                pred[j].add(i)
    out = []

    def rec(done, seq):
        if len(out) >= limit:
            return
        if len(seq) == n:
            out.append(list(seq))
            return
        for k in range(n):
            if k not in done and pred[k] <= done:
                rec(done | {k}, seq + [k])
    rec(frozenset(), [])
    return out


def execute(plan, judge=None, linearize=True):
    probes = dict((p, 0) for p in PROBES)
    viol = []
    if plan.get('server'):
        from sim import serverworld
        mk = serverworld.server_threaded_world
        probes['sessions_made_by_kmip_server'] += 1
    else:
        mk = threaded.ThreadedWorld
    W = mk(plan['actors'], plan['scripts'],
                               preempts=plan['preempts'],
                               tiebreaks=plan['tiebreaks'],
                               user_policies=plan.get('policies'),
                               seed=plan['seed'],
                               release_yields=plan.get('release_yields'))
    try:
        hist = W.run()
        S = W.sched
        if S.aborted and S.aborted.startswith('step cap'):
            # bounded liveness: with every request delivered and no fault
            # pending, the sessions did not finish within the step budget
            # (a run needs 5-10 % of it). If the same requests complete
            # when served one at a time, the concurrent run made no
            # progress: a violation; otherwise the workload itself is too
            # large for the budget: a harness error.
            try:
                w2 = world.World(plan['actors'], plan.get('policies'),
                                 seed=plan['seed'])
                try:
                    for ai, sc in enumerate(plan['scripts']):
                        for rq in sc:
                            r2 = dict(rq)
                            r2['actor'] = ai
                            r2.pop('mut', None)
                            w2.request(r2, record=False)
                finally:
                    w2.close()
            except Exception as e:
                raise RuntimeError('step cap reached: %s (sequential run '
                                   'failed too: %r)' % (S.aborted, e))
            W.close()
            return {'violations': [{
                'sig': {'oracle': 'no-progress', 'why': 'step cap'},
                'detail': {'aborted': S.aborted, 'steps': S.steps,
                           'tasks': [(t.name, t.state, t.points)
                                     for t in S.tasks]}}],
                'nontrivial': False, 'key': 'stepcap', 'digest': 'stepcap',
                'faults': {}, 'probes': probes, 'sim_s': 0.0,
                'steps': S.steps, 'sample': {'kind': 'step cap'}}
        dump_c = W.dump()
        own = owners(W.db)
        task_errors = [(t.name, t.error) for t in S.tasks if t.error]
        switches = S.schedule_signature()
        probes['contention'] = S.contention
        probes['preempt_fired'] = S.fired_preempts
        probes['yield_at_lock_release'] = S.fired_release_yields
        for a, b, why, site in switches:
            if why == 'preempt' and site and site.startswith('engine.py'):
                probes['preempt_inside_engine'] += 1
                ln = int(site.split(':')[1])
                if 361 <= ln <= 436:
                    probes['preempt_inside_batch_loop'] += 1
        for sc in plan['scripts']:
            for rq in sc:
                if any(k in rq for k in ('ts', 'maxresp', 'mut', 'async')) \
                        or tuple(rq['ver']) not in gen.VERSIONS:
                    probes['session_error_path_concurrent'] += 1
                ops = rq['items']
                if len(ops) > 1 and any(
                        o.get('uid') is None and o['op'] in (
                            'Get', 'GetAttributes', 'GetAttributeList',
                            'Destroy') for o in ops[1:]):
                    probes['idless_in_batch'] += 1
        events = list(S.events)
        lock_order = list(S.lock_order)
    finally:
        W.close()
    complete = [h for h in hist if h.get('frame') is not None]
    if S.aborted:
        viol.append({'sig': {'oracle': 'no-progress',
                             'why': S.aborted.split(':')[0]},
                     'detail': {'aborted': S.aborted}})
    for name, err in task_errors:
        viol.append({'sig': {'oracle': 'session-thread-died'},
                     'detail': {'task': name, 'error': err[-1500:]}})
    unanswered = [h for h in complete if h['sent'] is None]
    # ---- direct invariants ---------------------------------------------
    for h in complete:
        resp = h.get('resp')
        if resp is None:
            continue
        for op, it in zip(h['req']['items'], resp.items):
            if it['reason_name'] == 'OperationNotSupported':
                probes['version_gated_op'] += 1
            if op['op'] in ('Get', 'GetAttributes', 'GetAttributeList') \
                    and op.get('uid'):
                u = W.resolve(op['uid'])
                if u in own and own[u] != plan['actors'][h['actor']]['cn']:
                    probes['cross_owner_read'] += 1
            if it['status'] == 0 and op['op'] in (
                    'Create', 'Register', 'DeriveKey', 'CreateKeyPair'):
                ids = it['payload'].get('uids') or [
                    it['payload'].get('private_uid'),
                    it['payload'].get('public_uid')]
                for u in ids:
                    if u in own and own[u] != \
                            plan['actors'][h['actor']]['cn']:
                        viol.append({
                            'sig': {'oracle': 'owner-is-not-creator'},
                            'detail': {'uid': u, 'owner': own[u],
                                       'creator':
                                       plan['actors'][h['actor']]['cn']}})
    if judge is not None:
        # another check's per-exchange judge over this history (sim/conc.py)
        judge(plan, complete, own, W.resolve)
    # ---- linearizability by sequential re-execution ---------------------
    if not linearize:
        pass
    elif not S.aborted and not unanswered:
        # witness order: a request that entered the engine is placed at
        # its first lock acquisition, a request answered by the session
        # alone (it never took the lock) at its return
        acq = {}
        for e in events:
            if e['ev'] == 'lock-acquire' and e.get('task'):
                acq.setdefault(e['task'], []).append(e['seq'])

        def lin_point(h):
            for q in acq.get('s%d' % h['actor'], []):
                if h['invoke'] < q < h['ret']:
                    return q
            return h['ret']
        order = sorted(complete, key=lin_point)
        seq_out, dump_s = sequential(plan, order)
        ok = dump_s == dump_c and all(
            seq_out[(h['actor'], h['idx'])] == [h['sent']] for h in complete)
        tried = 1
        if not ok and len(complete) <= 12:
            probes['witness_order_search_used'] += 1
            for perm in admissible_orders(complete, 300):
                cand = [complete[k] for k in perm]
                if [id(x) for x in cand] == [id(x) for x in order]:
                    continue
                tried += 1
                so, ds = sequential(plan, cand)
                if ds == dump_c and all(
                        so[(h['actor'], h['idx'])] == [h['sent']]
                        for h in complete):
                    ok = True
                    break
        if not ok:
            first = None
            for h in order:
                if seq_out[(h['actor'], h['idx'])] != [h['sent']]:
                    first = h
                    break
            det = {'orders_tried': tried, 'store_differs': dump_s != dump_c}
            kind = 'store-only'
            if first is not None:
                kind = 'response'
                r2 = seq_out[(first['actor'], first['idx'])]
                det.update({
                    'actor': first['actor'], 'idx': first['idx'],
                    'ops': [o['op'] for o in first['req']['items']],
                    'concurrent': None if first.get('resp') is None else
                    first['resp'].plain(),
                    'sequential': reqs.Response(r2[0]).plain()
                    if len(r2) == 1 else repr(r2)})
            viol.append({'sig': {'oracle': 'not-serialisable',
                                 'differs': kind}, 'detail': det})
    elif unanswered and not S.aborted:
        viol.append({'sig': {'oracle': 'request-never-answered'},
                     'detail': [(h['actor'], h['idx']) for h in unanswered]})
    idents = set()
    for ai, a in enumerate(plan['actors']):
        if plan['scripts'][ai]:
            idents.add((a['cn'], tuple(plan['scripts'][ai][0]['ver'])))
    nontrivial = S.contention > 0 and len(idents) >= 2
    sched_sig = kernel.digest_of(switches)
    digest = kernel.digest_of([events, [h.get('sent') for h in hist],
                               dump_c])
    return {
        'violations': viol, 'nontrivial': nontrivial,
        'key': sched_sig + '/' + kernel.digest_of(plan['scripts']),
        'digest': digest,
        'faults': {'preempt': S.fired_preempts,
                   'lock_contention': S.contention},
        'probes': probes, 'schedule': sched_sig,
        'states': [kernel.digest_of(dump_c)],
        'sim_s': 0.0, 'steps': S.steps,
        'sample': {'clients': [[[o['op'] for o in rq['items']]
                                for rq in sc] for sc in plan['scripts']],
                   'versions': [sc[0]['ver'] if sc else None
                                for sc in plan['scripts']],
                   'preempts': plan['preempts'],
                   'switches': switches[:12],
                   'points_per_task': dict((t.name, t.points)
                                           for t in S.tasks)},
    }


def simplify(plan):
    for ai in range(len(plan['scripts'])):
        sc = plan['scripts'][ai]
        for j in range(len(sc) - 1, -1, -1):
            c = copy.deepcopy(plan)
            del c['scripts'][ai][j]
            yield c
    for ai in range(len(plan['scripts'])):
        for j, rq in enumerate(plan['scripts'][ai]):
            if len(rq['items']) > 1:
                for k in range(len(rq['items'])):
                    c = copy.deepcopy(plan)
                    del c['scripts'][ai][j]['items'][k]
                    yield c
