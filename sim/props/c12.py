"""
C12 — the session answers any bytes safely, once, and keeps going.

Byte streams made of valid requests and grammar-aware corruptions of valid
requests (plus raw random frames) are delivered to a real KmipSession over
the simulated connection in planned recv() chunks, frame by frame or as a
whole pipelined connection ending in EOF (real run()), with optional
timeout / reset / EOF-inside-a-frame faults.
"""
import copy

from sim import gen, kernel, monitors, mutate, reqs, world
from sim import ttlv_ref as t

ID = 'C12'
LEVEL = 'exploration'
COUNT = {'quick': 2200, 'thorough': 50000}
BUDGET_S = {'quick': 80, 'thorough': 840}
DETERMINISM = {'quick': 20, 'thorough': 120}
CHUNK = 10
RULE = ('plan kinds: (a) stream = good/bad frames (bad = one of 25 '
        'corruption kinds applied to a valid request of a seeded operation '
        'and version, or raw random bytes) ending in a good frame, '
        'delivered under two chunk plans (trickle, header splits, random '
        'splits) by the frame driver or the whole-connection driver, '
        'optionally with timeout/reset/EOF-mid-frame; (b) every single '
        'split point of one frame (enumerated); (c) maximum response size '
        'just below / at / above the real response size. Non-trivial: the '
        'stream has an undecodable frame followed by a valid one and a '
        'non-trivial chunk plan. Distinct = stream digest.')
PROBES = ['fewer_items_than_announced', 'final_request_vs_fresh_server', 'undecodable_then_good', 'decodable_mutant', 'all_split_points',
          'response_too_large', 'response_fits_exactly', 'trickle',
          'header_split', 'timeout_fault', 'reset_fault', 'eof_mid_frame',
          'whole_connection', 'deep_nesting', 'leftover_bytes',
          'engine_rejected_header']
REAL_VS_STUB = {
    'real': ['KmipSession.run / _handle_message_loop / _receive_request / '
             '_receive_bytes / _send_response', 'TTLV decoder',
             'KmipEngine + SQLite behind it'],
    'stub': ['TLS socket -> FakeConnection delivering planned chunks and '
             'stream faults', 'clock/entropy/RSA pool'],
}
ASSUMPTIONS = [
    'a "framed request" is what the 8-byte-header framing rule cuts out of '
    'the byte stream; an incomplete tail followed by EOF gets no response',
    'whether a frame is decodable is decided by a separate call of the '
    'real decoder on a copy',
    'after timeout/reset faults only the relaxed oracle applies (run() '
    'returns, nothing is executed more often than complete frames arrived)',
]

A = gen.A


def base_requests(r, ctx):
    """A menu of valid requests of every operation; seeded version."""
    ver = r.choice(gen.VERSIONS)
    v12 = max(ver, (1, 2))
    menu = [
        (ver, gen.gen_create(ctx, ver, 0)),
        (ver, gen.gen_register(ctx, ver, 0)),
        (ver, gen.gen_keypair(ctx, ver, 0)),
        (ver, {'op': 'Get', 'uid': '@k'}),
        (ver, {'op': 'GetAttributes', 'uid': '@k',
               'names': ['State', 'Name']}),
        (ver, {'op': 'GetAttributeList', 'uid': '@k'}),
        (ver, {'op': 'Locate', 'attrs': [A('Object Type', 2)]}),
        (ver, {'op': 'Activate', 'uid': '@k2'}),
        (ver, {'op': 'Revoke', 'uid': '@k2', 'code': 1}),
        (ver, {'op': 'Destroy', 'uid': '@k3'}),
        (ver, {'op': 'Query', 'funcs': [1, 3]}),
        (max(ver, (1, 1)), {'op': 'DiscoverVersions', 'versions': []}),
        (v12, {'op': 'Encrypt', 'uid': '@k', 'data': '00' * 16,
               'cp': {'alg': 3, 'mode': 2, 'padding': 3}}),
        (v12, {'op': 'MAC', 'uid': '@k', 'cp': {'alg': 9}, 'data': '0102'}),
        (v12, {'op': 'Sign', 'uid': '@k', 'data': '0102',
               'cp': {'alg': 4, 'hash': 6, 'padding': 8}}),
        (ver, gen.gen_derive(ctx, ver, 0)),
        (ver, gen.gen_attr_op(ctx, ver, 0)),
        (ver, gen.gen_locate(ctx, ver, 0)),
    ]
    ver, op = r.choice(menu)
    if r.random() < 0.12:
        # a frame larger than any receive buffer the session uses (4 KiB)
        # and than a typical network segment
        op = gen.gen_register(ctx, ver, 0, r.choice(['OpaqueData',
                                                     'SecretData']))
        ctx.objs.pop()
        op.pop('label', None)
        op['obj']['value'] = ctx.rbytes(r.choice(
            [4000, 4090, 4100, 5000, 9000, 20000, 70000]))
    rq = {'actor': 0, 'ver': list(ver), 'items': [op]}
    if r.random() < 0.15:
        rq['items'].append({'op': 'Query', 'funcs': [1]})
        rq['cont'] = 1
        if r.random() < 0.35:
            # two items under the same batch item identifier
            rq['ids'] = ['aa', 'aa']
    if r.random() < 0.1:
        rq['cred'] = ['user', 'secret-password']
    return rq


def gen_chunks(r, n):
    k = r.choice(['whole', 'trickle', 'header', 'random', 'random', 'big'])
    if k == 'whole':
        return None
    if k == 'trickle':
        return [1] * min(n, 4000)
    if k == 'header':
        return [r.choice([1, 3, 4, 5, 7]), 1, 2] + [4096] * 5
    if k == 'big':
        return [4096] * 4
    out = []
    left = n
    while left > 0 and len(out) < 200:
        c = r.choice([1, 2, 3, 5, 8, 13, 64, 200])
        out.append(c)
        left -= c
    return out


GOOD_TAIL = [{'op': 'Query', 'funcs': [1]},
             {'op': 'GetAttributes', 'uid': '@k', 'names': ['State']},
             {'op': 'Locate', 'attrs': []}]


def generate(rng, tier, index):
    r = rng
    ctx = gen.Ctx(r, nactors=1)
    setup = []
    for lab in ('k', 'k2', 'k3'):
        op = gen.gen_register(ctx, (1, 2), 0, 'SymmetricKey', want_mask=0x8c)
        op['label'] = lab
        ctx.objs[-1]['label'] = lab
        setup.append({'actor': 0, 'ver': [1, 2], 'items': [op]})
    setup.append({'actor': 0, 'ver': [1, 2], 'items': [
        {'op': 'Activate', 'uid': '@k'}]})
    x = r.random()
    plan = {'actors': [{'cn': 'alice'}], 'seed': r.randrange(1 << 30),
            'setup': setup}
    if x < 0.06:
        plan['kind'] = 'splits'
        plan['req'] = {'actor': 0, 'ver': list(r.choice(gen.VERSIONS)),
                       'items': [r.choice(GOOD_TAIL)]}
        return plan
    if x < 0.16:
        plan['kind'] = 'maxresp'
        its = [r.choice(GOOD_TAIL + [{'op': 'Get', 'uid': '@k'},
                                     {'op': 'GetAttributes', 'uid': '@k'}])]
        for _ in range(r.choice([0, 0, 1, 2])):
            its.append(copy.deepcopy(r.choice(GOOD_TAIL)))
        plan['req'] = {'actor': 0, 'ver': list(r.choice(gen.VERSIONS)),
                       'items': its, 'cont': 1 if len(its) > 1 else None}
        plan['deltas'] = [-8, -1, 0, 1, 8]
        return plan
    plan['kind'] = 'stream'
    stream = []
    if r.random() < 0.4:
        stream.append({'req': base_requests(r, ctx), 'mut': None})
    for _ in range(r.choice([1, 1, 2, 3, 4])):
        stream.append({'req': base_requests(r, ctx),
                       'mut': mutate.gen_spec(r)})
        if r.random() < 0.15:
            stream[-1]['mut2'] = mutate.gen_spec(r)
    for el in stream:
        if r.random() < 0.2:
            # a size limit on an earlier request of the connection (valid or
            # about to be corrupted): it is that request's business only
            el['req']['maxresp'] = r.choice([64, 128, 256, 400])
    stream.append({'req': {'actor': 0, 'ver': list(r.choice(gen.VERSIONS)),
                           'items': [r.choice(GOOD_TAIL)]}, 'mut': None})
    plan['stream'] = stream
    plan['driver'] = r.choice(['frames', 'frames', 'connection'])
    plan['chunks_a'] = gen_chunks(r, 3000)
    plan['chunks_b'] = gen_chunks(r, 3000)
    y = r.random()
    plan['fault'] = None
    if plan['driver'] == 'connection' and y < 0.35:
        plan['fault'] = {'kind': r.choice(['timeout', 'reset', 'eof_mid',
                                           'timeout', 'reset', 'eof_mid',
                                           'handshake', 'send_reset',
                                           'shutdown_enotconn']),
                         'at': r.choice([1, 4, 8, 9, 30, 100, 250, 600])}
    return plan


def leaf_truncated(frame):
    """True iff some primitive (non-structure) item that a reader of the
    message has to read declares more value bytes than its enclosing
    structure holds, i.e. part of the data the request announces is simply
    not there. Independent of kmip. Deliberately narrow (each clause was a
    false alarm on the unchanged tree once):
    * a structure whose own length field is off while all of its children
      are complete is only slack - the real decoder clamps it;
    * bytes that do not start a plausible item (tag 42xxxx/54xxxx, type
      1..10) are slack too, not a declared value: the walk of that
      structure stops there (e.g. the value bytes left behind when a
      fixed-size item's length field was zeroed and the decoder read the
      value anyway);
    * batch items beyond the Batch Count of the header are never read;
    * a fixed-size item (integer, long integer, enumeration, boolean, date,
      interval) is complete when its 8 value bytes are there, whatever its
      length field says."""
    import struct as _s
    buf = bytes(frame)

    def plausible(pos):
        return buf[pos] in (0x42, 0x54) and 1 <= buf[pos + 3] <= 10

    def walk(pos, end, depth, top=False):
        count = None
        seen_items = 0
        while end - pos >= 8 and depth < 80:
            if not plausible(pos):
                return False
            tag = buf[pos:pos + 3]
            typ = buf[pos + 3]
            ln = _s.unpack_from('!I', buf, pos + 4)[0]
            vstart = pos + 8
            if top and tag == b'\x42\x00\x0f':
                seen_items += 1
                if count is not None and seen_items > count:
                    return False
            if typ == 1:
                vend = min(vstart + ln, end)
                if walk(vstart, vend, depth + 1):
                    return True
                if top and tag in (b'\x42\x00\x77', b'\x42\x00\x7a'):
                    # Batch Count inside the request / response header
                    q = vstart
                    while vend - q >= 16:
                        l2 = _s.unpack_from('!I', buf, q + 4)[0]
                        if buf[q:q + 3] == b'\x42\x00\x0d' and l2 == 4:
                            count = _s.unpack_from('!i', buf, q + 8)[0]
                        q += 8 + l2 + ((8 - l2 % 8) % 8)
                pos = vstart + ln + ((8 - ln % 8) % 8)
            elif typ in (2, 3, 5, 6, 9, 10):
                # fixed-size items occupy 8 value bytes whatever their
                # length field says; a reader that takes those 8 bytes has
                # everything (the real decoder does so for Boolean)
                if vstart + 8 > end:
                    return True
                pos = vstart + 8
            else:
                if vstart + ln > end:
                    return True
                pos = vstart + ln + ((8 - ln % 8) % 8)
        return False
    if len(buf) < 8 or buf[3] != 1:
        return False
    ln0 = _s.unpack_from('!I', buf, 4)[0]
    return walk(8, min(8 + ln0, len(buf)), 1, top=True)


def announced_items_missing(frame):
    """True iff the request header announces more batch items than the
    message holds (independent of kmip): such a request cannot be decoded
    completely - the items it promises are not there."""
    import struct as _s
    buf = bytes(frame)
    if len(buf) < 16 or buf[:3] != b'\x42\x00\x78' or buf[3] != 1:
        return False
    end = min(len(buf), 8 + _s.unpack_from('!I', buf, 4)[0])
    pos = 8
    count = None
    items = 0
    while end - pos >= 8:
        if buf[pos] not in (0x42, 0x54) or not 1 <= buf[pos + 3] <= 10:
            break
        tag = buf[pos:pos + 3]
        ln = _s.unpack_from('!I', buf, pos + 4)[0]
        if tag == b'\x42\x00\x77' and buf[pos + 3] == 1:
            q, qend = pos + 8, min(end, pos + 8 + ln)
            while qend - q >= 16:
                l2 = _s.unpack_from('!I', buf, q + 4)[0]
                if buf[q:q + 3] == b'\x42\x00\x0d' and l2 == 4 and \
                        buf[q + 3] == 2:
                    count = _s.unpack_from('!i', buf, q + 8)[0]
                q += 8 + l2 + ((8 - l2 % 8) % 8)
        elif tag == b'\x42\x00\x0f' and buf[pos + 3] == 1:
            items += 1
            if count is not None and items <= count:
                # a request batch item consists of an operation and a
                # payload (KMIP: both required); an announced item without
                # payload is an item that is not there
                q, qend = pos + 8, min(end, pos + 8 + ln)
                has_payload = False
                while qend - q >= 8:
                    if buf[q:q + 3] == b'\x42\x00\x79':
                        has_payload = True
                    l2 = _s.unpack_from('!I', buf, q + 4)[0]
                    q += 8 + l2 + ((8 - l2 % 8) % 8)
                if not has_payload:
                    return True
        pos += 8 + ln + ((8 - ln % 8) % 8)
    return count is not None and 0 < count <= 64 and items < count


def decodable(frame):
    from kmip.core import enums, utils
    from kmip.core.messages import messages
    try:
        m = messages.RequestMessage()
        m.read(utils.BytearrayStream(frame),
               kmip_version=enums.KMIPVersion.KMIP_1_2)
        return True
    except Exception:
        return False


class Spy(object):
    def __init__(self, engine):
        self.calls = 0
        self.real = engine.process_request
        engine.process_request = self

    def __call__(self, *a, **kw):
        self.calls += 1
        return self.real(*a, **kw)


def new_world(plan):
    W = world.World(plan['actors'], None, seed=plan['seed'])
    for rq in plan['setup']:
        W.request(copy.deepcopy(rq))
    W.spy = Spy(W.engine)
    return W


def build_stream(plan, W):
    out = bytearray()
    elems = []
    for el in plan['stream']:
        f = reqs.build_request(el['req'], W.resolve, now=W.clock.now)
        if el.get('mut'):
            try:
                f = mutate.apply(f, el['mut'])
                if el.get('mut2'):
                    f = mutate.apply(f, el['mut2'])
            except t.TTLVError:
                pass       # second mutation on an already broken frame
        elems.append(f)
        out += f
    return bytes(out), elems


def run_frames(plan, frames, chunks):
    """Frame driver: returns per frame (sent, escape, engine_entered,
    store_changed)."""
    W = new_world(plan)
    try:
        out = []
        ci = 0
        for f in frames:
            before = W.dump()
            calls = W.spy.calls
            ch = None
            if chunks:
                ch = chunks[ci:] or None
            sent = W.send_raw(0, f, ch)
            conn = W.session(0)[1]
            ci += len(conn.recv_sizes)
            conn.recv_sizes = []
            leftover = len(conn.inbox)
            conn.inbox = bytearray()
            out.append({'sent': sent, 'escape': W.last_escape,
                        'entered': W.spy.calls - calls,
                        'changed': W.dump() != before,
                        'leftover': leftover,
                        't': W.clock.now})
        return out, W.dump()
    finally:
        W.close()


def run_connection(plan, stream, chunks, fault):
    """Whole-connection driver: the real run() over the byte stream."""
    W = new_world(plan)
    try:
        s, conn = W.session(0)
        data = stream
        if fault and fault['kind'] == 'eof_mid':
            data = stream[:max(0, len(stream) - fault['at'])]
        conn.feed(data, chunks)
        conn.eof = True
        before = W.dump()
        if fault and fault['kind'] in ('timeout', 'reset'):
            conn.fault_recv = (fault['kind'], min(fault['at'], len(data)))
        if fault and fault['kind'] == 'handshake':
            conn.fault_handshake = True
        if fault and fault['kind'] == 'send_reset':
            conn.fault_send = 'reset'
        if fault and fault['kind'] == 'shutdown_enotconn':
            import errno
            conn.fault_shutdown = errno.ENOTCONN
        err = None
        try:
            s.run()
        except Exception as e:
            err = '%s: %s' % (type(e).__name__, e)
        return {'sent': conn.take_sent(), 'error': err,
                'entered': W.spy.calls, 'closed': conn.closed,
                'data': data, 'before': before,
                'log': [m for (n, lv, m, ex) in kernel.LOG.records
                        if 'Failure handling message loop' in m]}, W.dump()
    finally:
        W.close()


def execute(plan):
    probes = dict((p, 0) for p in PROBES)
    viol = []
    faults = {'chunk': 0, 'trickle': 0, 'garbage': 0, 'timeout': 0,
              'reset': 0, 'eof_midframe': 0, 'handshake_failure': 0,
              'reset_on_send': 0, 'shutdown_not_connected': 0}

    def flag(oracle, **det):
        viol.append({'sig': {'oracle': oracle, 'why': det.get('why')},
                     'detail': det})

    kind = plan['kind']
    nontrivial = False
    if kind == 'splits':
        W = new_world(plan)
        try:
            f = reqs.build_request(plan['req'], W.resolve, now=W.clock.now)
            ref = W.send_raw(0, f)
            n = len(f)
            for c in range(1, n):
                got = W.send_raw(0, f, [c, n - c])
                if got != ref or W.last_escape:
                    flag('response-depends-on-chunking', why='split',
                         cut=c, length=n, escape=W.last_escape)
                    break
            got = W.send_raw(0, f, [1] * n)
            if got != ref:
                flag('response-depends-on-chunking', why='trickle')
            probes['all_split_points'] += 1
            faults['chunk'] += n
            digest = kernel.digest_of([f, ref])
            return {'violations': viol, 'nontrivial': True, 'key': digest,
                    'digest': digest, 'faults': faults, 'probes': probes,
                    'sim_s': 0.0, 'steps': n + 1, 'evals': 1,
                    'sample': {'kind': 'splits', 'frame_len': n,
                               'op': plan['req']['items'][0]['op']}}
        finally:
            W.close()
    if kind == 'maxresp':
        W = new_world(plan)
        try:
            f = reqs.build_request(plan['req'], W.resolve, now=W.clock.now)
            ref = W.send_raw(0, f)
            if len(ref) != 1:
                flag('not-exactly-one-response', why='maxresp-base',
                     n=len(ref))
                ref = [b'']
            L = len(ref[0])
            res = []
            for d in plan['deltas']:
                rq = copy.deepcopy(plan['req'])
                rq['maxresp'] = L + d
                f2 = reqs.build_request(rq, W.resolve, now=W.clock.now)
                got = W.send_raw(0, f2)
                if len(got) != 1:
                    flag('not-exactly-one-response', why='maxresp',
                         n=len(got), escape=W.last_escape)
                    continue
                p = monitors.envelope_problems(got[0], f2, True)
                if p:
                    flag('malformed-response', why=p[0])
                    continue
                rp = reqs.Response(got[0])
                too_large = (len(rp.items) == 1 and
                             rp.items[0]['reason_name'] ==
                             'ResponseTooLarge')
                res.append((d, too_large))
                if L + d < L and not too_large:
                    flag('oversized-response-sent', why=None, limit=L + d,
                         size=len(got[0]))
                if L + d >= L and too_large:
                    flag('fitting-response-replaced', why=None,
                         limit=L + d, size=L)
                if too_large:
                    probes['response_too_large'] += 1
                if d == 0 and not too_large:
                    probes['response_fits_exactly'] += 1
            digest = kernel.digest_of([f, ref, res])
            return {'violations': viol, 'nontrivial': True, 'key': digest,
                    'digest': digest, 'faults': faults, 'probes': probes,
                    'sim_s': 0.0, 'steps': len(plan['deltas']) + 1,
                    'sample': {'kind': 'maxresp', 'size': L, 'results': res,
                               'op': plan['req']['items'][0]['op']}}
        finally:
            W.close()
    # ---- streams ---------------------------------------------------------
    W0 = new_world(plan)
    try:
        stream, elems = build_stream(plan, W0)
    finally:
        W0.close()
    frames, leftover = monitors.split_frames(stream)
    if leftover:
        probes['leftover_bytes'] += 1
    dec = [decodable(f) for f in frames]
    for el in plan['stream']:
        if el.get('mut'):
            faults['garbage'] += 1
            if el['mut']['kind'] == 'nest' and el['mut']['depth'] >= 60:
                probes['deep_nesting'] += 1
    for ch in (plan['chunks_a'], plan['chunks_b']):
        if ch:
            faults['chunk'] += 1
            if ch[:3] == [1, 1, 1]:
                probes['trickle'] += 1
                faults['trickle'] += 1
            elif len(ch) > 3 and ch[3] == 4096:
                probes['header_split'] += 1
    fault = plan.get('fault')
    if plan['driver'] == 'frames':
        ra, dump_a = run_frames(plan, frames, plan['chunks_a'])
        rb, dump_b = run_frames(plan, frames, plan['chunks_b'])
        for i, (f, x) in enumerate(zip(frames, ra)):
            if x['escape']:
                flag('exception-escaped-message-loop',
                     why=x['escape'].split(':')[0], escape=x['escape'],
                     frame=f.hex()[:400], decodable=dec[i])
                continue
            if len(x['sent']) != 1:
                flag('not-exactly-one-response', why=None, n=len(x['sent']),
                     decodable=dec[i])
                continue
            p = monitors.envelope_problems(x['sent'][0], f, dec[i],
                                           x['t'], x['t'])
            if p:
                flag('malformed-response', why=p[0], problems=p,
                     decodable=dec[i])
                continue
            rp = reqs.Response(x['sent'][0])
            if dec[i] and leaf_truncated(f) and (
                    x['changed'] or any(it['status'] == 0
                                        for it in rp.items)):
                flag('truncated-value-executed', why=None,
                     frame=f.hex()[:400], result=rp.plain())
            if announced_items_missing(f):
                probes['fewer_items_than_announced'] += 1
                if x['entered'] or x['changed']:
                    flag('incomplete-batch-executed', why=None,
                         frame=f.hex()[:400], result=rp.plain())
            if not dec[i]:
                if x['entered']:
                    flag('undecodable-request-reached-engine', why=None,
                         frame=f.hex()[:400])
                if x['changed']:
                    flag('undecodable-request-changed-store', why=None)
                if not (len(rp.items) == 1 and rp.items[0]['reason_name']
                        == 'InvalidMessage'):
                    flag('undecodable-request-not-answered-invalid-message',
                         why=None, got=rp.plain())
            else:
                if x['entered'] and len(rp.items) == 1 and \
                        rp.items[0]['op'] is None and \
                        rp.items[0]['status'] != 0:
                    probes['engine_rejected_header'] += 1
                    # (read from the frame itself: corruption may have
                    # re-framed the stream, so positions do not map to plan
                    # elements)
                    own_limit = b'\x42\x00\x50\x02\x00\x00\x00\x04' in \
                        bytes(f[:120])
                    if x['changed'] and not (
                            own_limit and rp.items[0]['reason_name']
                            == 'ResponseTooLarge'):
                        # (an answer replaced because it exceeds the limit
                        # the request itself set is what C12 asks for; that
                        # the request was executed first is C08's open
                        # finding 4, not a C12 matter)
                        flag('rejected-request-changed-store',
                             why=rp.items[0]['reason_name'])
                if plan['stream'] and i < len(frames) - 1:
                    probes['decodable_mutant'] += 1
            if x['leftover']:
                flag('frame-not-consumed-exactly', why=None,
                     leftover=x['leftover'])
        if [x['sent'] for x in ra] != [x['sent'] for x in rb] or \
                dump_a != dump_b:
            flag('response-depends-on-chunking', why='stream',
                 chunks_a=(plan['chunks_a'] or [])[:8],
                 chunks_b=(plan['chunks_b'] or [])[:8])
        # the final good frame: same answer as on a clean connection
        good_only = [f for el, f in zip(plan['stream'], elems)
                     if not el.get('mut')]
        if frames and all(not d for d, el in zip(dec, plan['stream'])
                          if el.get('mut')) and \
                len(frames) == len(plan['stream']) and not leftover:
            rc, dump_c = run_frames(plan, good_only, None)
            good_a = [x['sent'] for x, el in zip(ra, plan['stream'])
                      if not el.get('mut')]
            if good_a != [x['sent'] for x in rc] or dump_c != dump_a:
                flag('bad-frames-influenced-later-request', why=None)
            if any(not d for d in dec):
                probes['undecodable_then_good'] += 1
                nontrivial = bool(plan['chunks_a'] or plan['chunks_b'])
        # ... and, when nothing before it changed the store, the same answer
        # as from a server that has seen nothing but this request
        if len(frames) == len(plan['stream']) and len(frames) > 1 and \
                not leftover and not any(x['changed'] for x in ra[:-1]):
            rf, _ = run_frames(plan, [frames[-1]], None)
            probes['final_request_vs_fresh_server'] += 1
            if rf[0]['sent'] != ra[-1]['sent']:
                flag('earlier-frames-influenced-later-request',
                     why='fresh-server-differs',
                     earlier=[(el['req']['items'][0]['op'],
                               (el.get('mut') or {}).get('kind'),
                               el['req'].get('maxresp'))
                              for el in plan['stream'][:-1]])
        sent_all = [x['sent'] for x in ra]
    else:
        probes['whole_connection'] += 1
        ra, dump_a = run_connection(plan, stream, plan['chunks_a'], fault)
        if fault:
            faults[{'timeout': 'timeout', 'reset': 'reset',
                    'eof_mid': 'eof_midframe',
                    'handshake': 'handshake_failure',
                    'send_reset': 'reset_on_send',
                    'shutdown_enotconn': 'shutdown_not_connected'}[
                        fault['kind']]] += 1
            if fault['kind'] in ('timeout', 'reset', 'eof_mid'):
                probes[{'timeout': 'timeout_fault', 'reset': 'reset_fault',
                        'eof_mid': 'eof_mid_frame'}[fault['kind']]] += 1
        if ra['error']:
            flag('run-raised', why=ra['error'].split(':')[0],
                 error=ra['error'])
        if not ra['closed']:
            flag('connection-not-closed-at-end', why=None)
        cframes, _ = monitors.split_frames(ra['data'])
        if fault and fault['kind'] == 'handshake':
            # no identity was established over TLS: nothing may be read,
            # executed or answered
            if ra['entered'] or ra['sent'] or dump_a != ra['before']:
                flag('request-served-after-failed-handshake', why=None,
                     entered=ra['entered'], responses=len(ra['sent']))
        elif fault and fault['kind'] in ('timeout', 'reset', 'send_reset'):
            if ra['entered'] > len(cframes):
                flag('executed-more-than-delivered', why=fault['kind'],
                     entered=ra['entered'], frames=len(cframes))
            if fault['kind'] == 'send_reset':
                # the first answer was lost with the connection error; the
                # answers that did go out belong to the following requests
                for f, s_ in zip(cframes[1:], ra['sent']):
                    p = monitors.envelope_problems(s_, f, decodable(f))
                    if p:
                        flag('malformed-response', why=p[0], problems=p)
        else:
            if len(ra['sent']) != len(cframes):
                flag('responses-do-not-match-framed-requests', why=None,
                     responses=len(ra['sent']), frames=len(cframes),
                     log=ra['log'][:2])
            else:
                for f, s_ in zip(cframes, ra['sent']):
                    p = monitors.envelope_problems(s_, f, decodable(f))
                    if p:
                        flag('malformed-response', why=p[0], problems=p)
            if ra['log']:
                flag('exception-escaped-message-loop', why='logged',
                     n=len(ra['log']))
            rb, dump_b = run_connection(plan, stream, plan['chunks_b'],
                                        fault)
            if rb['sent'] != ra['sent'] or dump_a != dump_b:
                flag('response-depends-on-chunking', why='connection')
            if any(not decodable(f) for f in cframes[:-1]) and cframes and \
                    decodable(cframes[-1]):
                probes['undecodable_then_good'] += 1
                nontrivial = bool(plan['chunks_a'] or plan['chunks_b'])
        sent_all = ra['sent']
    digest = kernel.digest_of([stream, sent_all, dump_a])
    return {
        'violations': viol, 'nontrivial': nontrivial, 'key': digest,
        'digest': digest, 'faults': faults, 'probes': probes,
        'states': [kernel.digest_of(dump_a)], 'sim_s': 0.0,
        'steps': len(frames) * 2,
        'sample': {'driver': plan['driver'],
                   'stream': [(el['req']['items'][0]['op'],
                               (el.get('mut') or {}).get('kind'))
                              for el in plan['stream']],
                   'decodable': dec, 'fault': fault,
                   'chunks_a': (plan['chunks_a'] or [])[:6]},
    }


SHRINK_LISTS = ['stream']


def simplify(plan):
    if plan.get('kind') != 'stream':
        return
    for key in ('chunks_a', 'chunks_b'):
        if plan.get(key):
            c = copy.deepcopy(plan)
            c[key] = None
            yield c
    for i, el in enumerate(plan['stream']):
        if el.get('mut2'):
            c = copy.deepcopy(plan)
            del c['stream'][i]['mut2']
            yield c


def directed(tier):
    """Known finding: KMIP 2.0 GetAttributes with nothing to report."""
    ctx = gen.Ctx(__import__('random').Random(5), nactors=1)
    setup = []
    for lab in ('k', 'k2', 'k3'):
        op = gen.gen_register(ctx, (1, 2), 0, 'SymmetricKey', want_mask=0x8c)
        op['label'] = lab
        op['attrs'] = [a for a in op['attrs'] if a['n'] != 'Object Group']
        setup.append({'actor': 0, 'ver': [1, 2], 'items': [op]})
    # one legal request of more than a mebibyte, then an ordinary one, over
    # coarse chunk plans only (with byte-sized chunks the session's own
    # `message += chunk` makes such a frame cost minutes): read to its end,
    # answered once, the next request served normally
    big = {'actors': [{'cn': 'alice'}], 'seed': 6, 'setup': setup,
           'kind': 'stream', 'driver': 'connection', 'chunks_a': None,
           'chunks_b': [4096] * 400, 'fault': None,
           'stream': [{'req': {'actor': 0, 'ver': [1, 2], 'items': [{
               'op': 'Register', 'otype': 'OpaqueData', 'attrs': [],
               'obj': {'odtype': 0x80000000,
                       'value': 'rep:a0d07c7c:1200000'}}]}, 'mut': None},
               {'req': {'actor': 0, 'ver': [1, 2], 'items': [
                   {'op': 'GetAttributes', 'uid': '@k',
                    'names': ['State']}]}, 'mut': None}]}
    # (thorough tier only: PyKMIP decodes a byte string byte by byte,
    # re-slicing its buffer each time - tens of seconds per decode here)
    return ([big] if tier == 'thorough' else []) + [{
             'actors': [{'cn': 'alice'}], 'seed': 5, 'setup': setup,
             'kind': 'stream', 'driver': 'frames', 'chunks_a': None,
             'chunks_b': [1] * 400, 'fault': None,
             'stream': [{'req': {'actor': 0, 'ver': [2, 0], 'items': [
                 {'op': 'GetAttributes', 'uid': '@k',
                  'names': ['Object Group']}]}, 'mut': None},
                 {'req': {'actor': 0, 'ver': [1, 2], 'items': [
                     {'op': 'Query', 'funcs': [1]}]}, 'mut': None}]}]
