"""
C17 — no request is evaluated before the client's identity is established.

The finite product certificate shape x enable_tls_client_auth x plugin
configuration x request is enumerated COMPLETELY against a real KmipSession
with a real engine behind it. A spy on engine.process_request records
whether and with which identity request processing was entered; a small
decision model written from the property statement says what must happen.
"""
import itertools

from sim import gen, kernel, net, reqs, serverworld, world

ID = 'C17'
LEVEL = 'fault_enumeration'
# subject shapes: number of distinct common names, or an explicit tuple
# (the same name twice is still two common names)
SHAPES = [0, 1, 2, ('cn0', 'cn0'), ('cn0', 'cn0', 'cn1')]
CERTS = [None] + [(ncn, eku) for ncn in SHAPES
                  for eku in (None, ('server',), ('client',),
                              ('server', 'client'), ('any',),
                              ('server', 'any'), ('email', 'codesign'))]
# names that are not common names: subject alternative names and other
# subject attributes carrying a user's name establish no identity, and do
# not disturb the one the common name establishes
NOT_CN = [
    {'cns': (), 'san_dns': ('cn0',)},
    {'cns': (), 'san_email': ('cn0',)},
    {'cns': (), 'san_dns': ('cn0',), 'san_email': ('cn0',)},
    {'cns': (), 'attrs': (('USER_ID', 'cn0'), ('SURNAME', 'cn0'),
                          ('EMAIL_ADDRESS', 'cn0'),
                          ('ORGANIZATIONAL_UNIT_NAME', 'cn0'))},
    {'cns': ('cn0',), 'san_dns': ('cn1',), 'san_email': ('cn1',)},
    {'cns': ('cn0',), 'attrs': (('USER_ID', 'cn1'), ('SURNAME', 'cn1'))},
    {'cns': ('cn0', 'cn1'), 'san_dns': ('cn0',)},
]
CERTS += [(sh, ('client',)) for sh in NOT_CN]


def names_of(shape):
    if isinstance(shape, dict):
        return tuple(shape['cns'])
    if isinstance(shape, (tuple, list)):
        return tuple(shape)
    return tuple('cn%d' % i for i in range(shape))


def extras_of(shape):
    if isinstance(shape, dict):
        return dict((k, [list(x) if isinstance(x, tuple) else x
                         for x in v])
                    for k, v in shape.items() if k != 'cns')
    return None


TLS = [True, False]
BEHAVIOURS = ['ok', 'ok_nogroups', 'user404', 'groups404', 'down_users',
              'down_groups', 'badjson', 'disabled', 'unsupported',
              'nourl', 'users500']
PLUGINS = [()] + [(b,) for b in BEHAVIOURS] + \
    [(a, b) for a in BEHAVIOURS for b in BEHAVIOURS]
REQUESTS = ['Query', 'Create', 'Get']
CASES = len(CERTS) * len(TLS) * len(PLUGINS) * len(REQUESTS)
PER_PLAN = 96
NPLANS = (CASES + PER_PLAN - 1) // PER_PLAN
# second pass, through the real KmipServer front end: one server (real
# configuration file -> KmipServerConfig -> KmipServer.start() -> serve() ->
# _setup_connection_handler) per (enable_tls_client_auth, plugin list), all
# certificate shapes x requests on each
CONFIGS = len(TLS) * len(PLUGINS)
CONF_PER_PLAN = 6
NSRV = (CONFIGS + CONF_PER_PLAN - 1) // CONF_PER_PLAN
# third pass: several requests on ONE session while the plugin's answer
# changes between them (user removed, service down, groups changed): every
# request must be judged by the answer the plugin gives at that moment.
# All sequences of 2 and 3 behaviours, complete.
DYN = ['ok', 'ok2', 'ok_nogroups', 'user404', 'groups404', 'down_users',
       'down_groups', 'badjson']
SEQS = [(a, b) for a in DYN for b in DYN] + \
    [(a, b, c) for a in DYN for b in DYN for c in DYN]
SEQ_PER_PLAN = 48
NSEQ = (len(SEQS) + SEQ_PER_PLAN - 1) // SEQ_PER_PLAN
# fourth pass (sampled): sessions of different identities served
# concurrently by one engine under seeded schedules; every request must be
# evaluated under the identity established for ITS session
NCONC = {'quick': 100, 'thorough': 3000}
COUNT = {'quick': NPLANS + NSRV + NSEQ + NCONC['quick'],
         'thorough': NPLANS + NSRV + NSEQ + NCONC['thorough']}
BUDGET_S = {'quick': 80, 'thorough': 600}
DETERMINISM = {'quick': 8, 'thorough': 30}
CHUNK = 4
EXHAUSTIVE = {'quick': False, 'thorough': False}
RULE = ('complete product: %d certificate shapes (absent; 0/1/2 distinct '
        'common names, the same name twice, three names x EKU absent / serverAuth only / clientAuth / both / anyExtendedKeyUsage / serverAuth+any / other usages; real DER) '
        'x enable_tls_client_auth on/off x %d plugin configurations (none, '
        'and every list of 1-2 blocks over %s) x %d requests = %d cases, all '
        'executed in every run with the session constructed by the harness, '
        'and all executed a second time with the session constructed by the '
        'real KmipServer from a configuration file (enable_tls_client_auth '
        'given in the file, as a constructor argument, or left to its '
        'default); plus ALL sequences of 2 and 3 plugin answers over %d '
        'behaviours on ONE session (the answer changes between requests of '
        'a connection). These three passes are complete enumerations in '
        'every run. A fourth, SAMPLED pass (100 / 3000 plans) runs 2-4 '
        'sessions of different identities concurrently on one engine under '
        'seeded schedules (threaded world): each request must be evaluated '
        'under the identity established for its own session - what it '
        'creates is owned by that identity, it reaches only that '
        'identity\'s objects (all under the owner-only default policy), and '
        'that identity\'s own objects are never refused. Non-trivial: every case (each is a distinct '
        'configuration); distinct = case number (+ "srv").' % (
            len(CERTS), len(PLUGINS), BEHAVIOURS, len(REQUESTS), CASES,
            len(DYN)))
PROBES = ['concurrent_plans', 'concurrent_exchanges_judged',
          'concurrent_foreign_object_refused', 'engine_entered', 'auth_refused', 'second_plugin_vouched',
          'plugin_failed_then_refused', 'cn_fallback_without_plugins',
          'users_5xx_recorded', 'sessions_made_by_kmip_server',
          'tls_flag_from_default', 'tls_flag_from_kwarg',
          'requests_on_reused_session']
REAL_VS_STUB = {
    'real': ['KmipSession.run threads of different identities on one '
             'KmipEngine under the deterministic scheduler (fourth pass)',
             'KmipSession._handle_message_loop + authenticate',
             'KmipServer.__init__/start/serve/_setup_connection_handler/stop '
             'and KmipServerConfig on a real configuration file (second pass)',
             'auth.utils (certificate / EKU / CN extraction on real DER)',
             'SLUGSConnector', 'KmipEngine behind the session'],
    'stub': ['SLUGS HTTP service -> fake requests module scripted per URL '
             '(200 / 404 / 5xx / connection error / body that is not JSON)',
             'TLS handshake: the certificate is handed to the session by '
             'the fake connection',
             'listening socket / ssl.wrap_socket / multiprocessing.Manager / '
             'signal handlers of KmipServer -> in-process fakes'],
}
ASSUMPTIONS = [
    'a users-endpoint answer other than 404 (e.g. 500) is executed and '
    'recorded but not judged: the statement lists succeed / fail / 404 / '
    'unreachable only',
]


def case_of(n):
    n, rq = divmod(n, len(REQUESTS))
    n, pl = divmod(n, len(PLUGINS))
    n, tl = divmod(n, len(TLS))
    n, ce = divmod(n, len(CERTS))
    return CERTS[ce], TLS[tl], PLUGINS[pl], REQUESTS[rq]


def case_number(ce, tl, pl, rq):
    return ((ce * len(TLS) + tl) * len(PLUGINS) + pl) * len(REQUESTS) + rq


def gen_concurrent(r, index):
    from sim import conc, gen
    nact = r.choice([2, 2, 3, 3, 4])
    actors = [{'cn': 'user%d' % i} for i in range(nact)]
    if r.random() < 0.25:
        # a session that establishes no identity at all runs beside them
        actors.append({'cn': 'nobody', 'nocert': True} if r.random() < 0.5
                      else {'cn': 'twocn', 'cns': ['user0', 'user1']})
    ctx = gen.Ctx(r, nactors=len(actors))
    scripts = []
    labels = []
    for ai in range(nact):
        sc = []
        mine = []
        for j in range(r.randint(2, 5)):
            x = r.random()
            if j == 0 or x < 0.3:
                first = conc.simple_keypair(ctx) if r.random() < 0.25 else \
                    conc.simple_create(ctx)
                items = [first]
                if r.random() < 0.4:
                    # another owner's object addressed from inside the
                    # batch that holds the slow item
                    if labels and r.random() < 0.7:
                        items.append({'op': r.choice(['Get', 'GetAttributes']),
                                      'uid': '@' + r.choice(labels)})
                    else:
                        items.append({'op': 'Get'})
                sc.append({'ver': [1, 2], 'items': items, 'cont': 1})
                mine.append(first['label'])
                labels.append(first['label'])
            elif x < 0.6 and mine:
                sc.append({'ver': [1, 2], 'items': [{
                    'op': r.choice(['Get', 'GetAttributes', 'Activate',
                                    'GetAttributeList']),
                    'uid': '@' + r.choice(mine)}]})
            elif x < 0.85 and labels:
                sc.append({'ver': [1, 2], 'items': [{
                    'op': r.choice(['Get', 'GetAttributes', 'Activate',
                                    'GetAttributeList', 'Revoke']),
                    'uid': '@' + r.choice(labels)}]})
                if sc[-1]['items'][0]['op'] == 'Revoke':
                    sc[-1]['items'][0].update({'code': 1})
            else:
                sc.append({'ver': [1, 2], 'items': [
                    {'op': 'Locate', 'attrs': []}]})
        scripts.append(sc)
    for ai in range(nact, len(actors)):
        scripts.append([{'ver': [1, 2], 'items': [{
            'op': r.choice(['Get', 'Locate', 'Query']),
            'uid': '@' + r.choice(labels), 'attrs': [], 'funcs': [1]}]}
            for _ in range(r.choice([1, 2]))])
    return conc.plan_of(r, index, actors, scripts)


def execute_concurrent(plan):
    from sim import conc
    from sim.props import c10
    probes = dict((p, 0) for p in PROBES)
    mine = []

    def flag(oracle, **det):
        mine.append({'sig': {'oracle': oracle, 'why': det.get('why')},
                     'detail': det})

    def judge(pl, complete, own, resolve):
        creator = {}
        # the default policy opens public keys to everybody; symmetric and
        # private keys are owner-only
        public = set()
        for h in complete:
            resp = h.get('resp')
            if resp is None:
                continue
            for op, it in zip(h['req']['items'], resp.items):
                for u in conc.created_ids(op, it):
                    creator[u] = h['actor']
                    if u == it['payload'].get('public_uid'):
                        public.add(u)
        for u, a in sorted(creator.items()):
            cn = pl['actors'][a]['cn']
            if u in own and own[u] != cn:
                flag('object-owned-by-another-identity', why=None, uid=u,
                     creator=cn, owner=own[u])
        for h in complete:
            resp = h.get('resp')
            if resp is None:
                continue
            a = pl['actors'][h['actor']]
            unidentified = a.get('nocert') or len(a.get('cns', [1])) != 1
            probes['concurrent_exchanges_judged'] += 1
            uids = conc.sent_uids(h['frame'])
            placeholder = None
            for k, (op, it) in enumerate(zip(h['req']['items'],
                                           resp.items)):
                if unidentified:
                    if it['status'] == 0:
                        flag('request-served-without-identity',
                             why=op['op'])
                    continue
                made = conc.created_ids(op, it)
                u = uids[k] if k < len(uids) and uids[k] else placeholder
                if made:
                    placeholder = made[0]
                if op['op'] == 'Locate' and it['status'] == 0:
                    for x in it['payload'].get('uids', []):
                        if x in creator and creator[x] != h['actor'] \
                                and x not in public:
                            flag('served-under-another-identity',
                                 why='Locate', uid=x)
                    continue
                if op['op'] not in ('Get', 'GetAttributes', 'Activate',
                                    'GetAttributeList', 'Revoke') or \
                        u not in creator or u in public:
                    continue
                if creator[u] != h['actor']:
                    if it['status'] == 0:
                        flag('served-under-another-identity', why=op['op'],
                             uid=u, requester=a['cn'],
                             owner=pl['actors'][creator[u]]['cn'])
                    else:
                        probes['concurrent_foreign_object_refused'] += 1
                elif it['status'] != 0 and it['reason_name'] in (
                        'PermissionDenied', 'ItemNotFound') and \
                        (uids[k] if k < len(uids) else None) is None:
                    # the placeholder of this very batch names the
                    # requester's own new object
                    flag('own-object-refused', why=op['op'], uid=u)
    res = c10.execute(plan, judge=judge, linearize=False)
    probes['concurrent_plans'] = 1
    res['violations'] = mine
    res['probes'] = probes
    res['key'] = 'concurrent/' + res['key']
    res['nontrivial'] = bool(res.get('faults', {}).get('lock_contention'))
    res['sample'] = {'kind': 'concurrent',
                     'identities': [x['cn'] for x in plan['actors']],
                     'clients': [[[o['op'] for o in rq['items']]
                                  for rq in sc] for sc in plan['scripts']],
                     'preempts': plan['preempts']}
    return res


SHRINK_LISTS = ['preempts', 'tiebreaks']


def simplify(plan):
    if plan.get('kind') == 'concurrent':
        from sim.props import c10
        for c in c10.simplify(plan):
            yield c


def generate(rng, tier, index):
    if index >= NPLANS + NSRV + NSEQ:
        return gen_concurrent(rng, index - (NPLANS + NSRV + NSEQ))
    if index >= NPLANS + NSRV:
        lo = (index - NPLANS - NSRV) * SEQ_PER_PLAN
        return {'seqs': list(range(lo, min(len(SEQS), lo + SEQ_PER_PLAN))),
                'seed': 1}
    if index >= NPLANS:
        lo = (index - NPLANS) * CONF_PER_PLAN
        return {'configs': list(range(lo, min(CONFIGS, lo + CONF_PER_PLAN))),
                'seed': 1}
    lo = index * PER_PLAN
    return {'cases': list(range(lo, min(CASES, lo + PER_PLAN))), 'seed': 1}


def _real_requests_exceptions():
    import requests
    return requests.exceptions


class Slugs(object):
    """`requests` stand-in: behaviour is encoded in the host name. Faults
    are raised with the exception classes the real library uses
    (requests.exceptions.ConnectionError / ReadTimeout / JSONDecodeError),
    and `exceptions` is the real namespace, so that code catching
    RequestException sees what it would see in production."""
    calls = []
    exceptions = _real_requests_exceptions()

    class R(object):
        def __init__(self, code, body):
            self.status_code = code
            self.body = body

        def json(self):
            if self.body is None:
                exc = getattr(Slugs.exceptions, 'JSONDecodeError', None)
                if exc is not None:
                    raise exc('Expecting value', 'not json', 0)
                raise ValueError('No JSON object could be decoded')
            return self.body

    current = 'ok'      # behaviour of the host 'dyn' right now

    def get(self, url, timeout=None, **kw):
        host = url.split('//', 1)[1].split('/', 1)[0]
        if host == 'dyn':
            host = Slugs.current
        is_groups = url.endswith('/groups')
        Slugs.calls.append((host, is_groups))
        if host == 'down_users' or (host == 'down_groups' and is_groups):
            n = len(Slugs.calls)
            if n % 2:
                raise Slugs.exceptions.ConnectionError(
                    'simulated: unreachable')
            raise Slugs.exceptions.ReadTimeout('simulated: read timed out')
        if host == 'user404' and not is_groups:
            return self.R(404, {})
        if host == 'groups404' and is_groups:
            return self.R(404, {})
        if host == 'users500' and not is_groups:
            return self.R(500, {})
        if host == 'badjson' and is_groups:
            return self.R(200, None)
        if is_groups:
            if host == 'ok_nogroups':
                return self.R(200, {})
            return self.R(200, {'groups': ['grp-' + host, 'staff']})
        return self.R(200, {'user': 'x'})


def settings_for(plugins):
    out = []
    for i, b in enumerate(plugins):
        name = 'auth:slugs%d' % i
        cfg = {'enabled': 'True', 'url': 'http://%s/' % b}
        if b == 'disabled':
            cfg['enabled'] = 'False'
        elif b == 'unsupported':
            name = 'auth:ldap%d' % i
        elif b == 'nourl':
            cfg = {'enabled': 'True'}
        out.append((name, cfg))
    return out


def model(cert, tls, plugins):
    """-> ('enter', user, groups) | ('refuse',) | ('unjudged',)"""
    if cert is None:
        return ('refuse',)
    ncn, eku = len(names_of(cert[0])), cert[1]
    if tls and (eku is None or 'client' not in eku):
        return ('refuse',)
    enabled = [b for b in plugins if b not in ('disabled', 'unsupported')]
    if not enabled:
        if ncn != 1:
            return ('refuse',)
        return ('enter', 'cn0', None)
    for b in enabled:
        if ncn != 1:
            continue               # the plugin cannot name the user
        if b == 'users500':
            return ('unjudged',)
        if b in ('ok', 'ok2', 'ok_nogroups'):
            return ('enter', 'cn0',
                    None if b == 'ok_nogroups' else ['grp-' + b, 'staff'])
    return ('refuse',)


def tls_source(tl, pl):
    """How the second pass tells KmipServer the flag."""
    if TLS[tl]:
        return ('conf', 'kwarg', 'default')[pl % 3]
    return ('conf', 'kwarg')[pl % 2]


def execute(plan):
    if plan.get('kind') == 'concurrent':
        return execute_concurrent(plan)
    probes = dict((p, 0) for p in PROBES)
    viol = []
    server_mode = 'configs' in plan
    if server_mode:
        W = serverworld.ServerWorld([{'cn': 'cn0'}], None, seed=plan['seed'])
    else:
        W = world.World([{'cn': 'cn0'}], None, seed=plan['seed'])
    import kmip.services.server.auth.slugs as slugs_mod
    from kmip.services.server.session import KmipSession
    slugs_mod.requests = Slugs()
    results = []
    seen = []

    def flag(oracle, **det):
        viol.append({'sig': {'oracle': oracle, 'why': det.get('why')},
                     'detail': det})

    def install_spy():
        real = W.engine.process_request

        def spy(request, credential=None):
            seen.append(credential)
            return real(request, credential)
        W.engine.process_request = spy

    def run_case(n, make_session, extra, explicit=None, reuse=None):
        cert, tls, plugins, rq = explicit or case_of(n)
        case = {'case': n, 'cert': cert, 'tls': tls,
                'plugins': plugins, 'request': rq}
        case.update(extra)
        if reuse is not None:
            s, conn = reuse
        else:
            der = None
            if cert is not None:
                der = net.make_certificate(names_of(cert[0]), cert[1],
                                           extras_of(cert[0]))
            conn = net.FakeConnection(der)
            s = make_session(conn, tls, plugins)
        if s is None:
            flag('server-created-no-session', why=None, **case)
            return
        op = {'Query': {'op': 'Query', 'funcs': [1]},
              'Create': {'op': 'Create', 'attrs': [
                  gen.A('Cryptographic Algorithm', 3),
                  gen.A('Cryptographic Length', 128),
                  gen.A('Cryptographic Usage Mask', 12)]},
              'Get': {'op': 'Get', 'uid': '@k'}}[rq]
        frame = reqs.build_request({'ver': [1, 2], 'items': [op]},
                                   W.resolve, now=W.clock.now)
        before = W.dump()
        del seen[:]
        Slugs.calls = []
        conn.feed(frame)
        escape = None
        try:
            s._handle_message_loop()
        except Exception as e:
            escape = '%s: %s' % (type(e).__name__, e)
        sent = conn.take_sent()
        want = model(cert, tls, plugins)
        if escape or len(sent) != 1:
            flag('not-exactly-one-response', why=escape, **case)
            return
        resp = reqs.Response(sent[0])
        entered = len(seen) > 0
        results.append((n, entered, [i['reason'] for i in resp.items]))
        if want[0] == 'unjudged':
            probes['users_5xx_recorded'] += 1
            return
        if want[0] == 'enter':
            if not entered:
                flag('identity-established-but-request-refused',
                     why=resp.items[0]['reason_name'], **case)
                return
            probes['engine_entered'] += 1
            got = seen[0]
            g_user = got[0] if got else None
            g_groups = got[1] if got and len(got) > 1 else None
            if len(seen) != 1 or g_user != want[1] or \
                    (None if g_groups is None else list(g_groups)) != \
                    want[2]:
                flag('wrong-identity-handed-to-engine', why=None,
                     got=[g_user, g_groups], want=list(want[1:]),
                     **case)
            if plugins and plugins[0] not in ('ok', 'ok_nogroups') and \
                    want[2] is not None:
                probes['second_plugin_vouched'] += 1
            if want[2] is None and not [
                    b for b in plugins
                    if b not in ('disabled', 'unsupported')]:
                probes['cn_fallback_without_plugins'] += 1
        else:
            if entered:
                flag('request-processed-without-identity', why=None,
                     credential=repr(seen[0]), **case)
                return
            probes['auth_refused'] += 1
            if any(b not in ('disabled', 'unsupported')
                   for b in plugins):
                probes['plugin_failed_then_refused'] += 1
            it = resp.items[0]
            if len(resp.items) != 1 or it['reason_name'] != \
                    'AuthenticationNotSuccessful':
                flag('refusal-is-not-authentication-not-successful',
                     why=it['reason_name'], **case)
            if W.dump() != before:
                flag('refused-request-changed-store', why=None, **case)

    try:
        # an object for Get, created by cn0 through the normal path
        W.request({'actor': 0, 'ver': [1, 2], 'items': [{
            'op': 'Register', 'label': 'k', 'otype': 'SymmetricKey',
            'attrs': [gen.A('Cryptographic Usage Mask', 12)],
            'obj': {'kft': 1, 'value': '22' * 16, 'alg': 3, 'len': 128}}]})
        cases = []
        if 'seqs' in plan:
            install_spy()
            good_cert = (1, ('client',))
            for q in plan['seqs']:
                seq = SEQS[q]
                conn = net.FakeConnection(net.make_certificate(
                    names_of(1), ('client',)))
                s = KmipSession(W.engine, conn, ('10.0.0.9', 1),
                                name='c17', enable_tls_client_auth=True,
                                auth_settings=[('auth:slugs', {
                                    'enabled': 'True',
                                    'url': 'http://dyn/'})])
                for k, beh in enumerate(seq):
                    Slugs.current = beh
                    cases.append(100000 + q * 4 + k)
                    probes['requests_on_reused_session'] += 1
                    run_case(100000 + q * 4 + k, None,
                             {'sequence': list(seq), 'position': k},
                             explicit=(good_cert, True, (beh,),
                                       REQUESTS[(q + k) % len(REQUESTS)]),
                             reuse=(s, conn))
            Slugs.current = 'ok'
        elif not server_mode:
            install_spy()

            def direct(conn, tls, plugins):
                return KmipSession(W.engine, conn, ('10.0.0.9', 1),
                                   name='c17', enable_tls_client_auth=tls,
                                   auth_settings=settings_for(plugins))
            for n in plan['cases']:
                cases.append(n)
                run_case(n, direct, {})
        else:
            for c in plan['configs']:
                tl, pl = divmod(c, len(PLUGINS))
                src = tls_source(tl, pl)
                W.auth_settings = settings_for(PLUGINS[pl])
                W.server_opts = {
                    'tls_client_auth_conf': TLS[tl] if src == 'conf'
                    else None,
                    'kwargs': {'enable_tls_client_auth': TLS[tl]}
                    if src == 'kwarg' else {}}
                if src == 'default':
                    probes['tls_flag_from_default'] += 1
                if src == 'kwarg':
                    probes['tls_flag_from_kwarg'] += 1
                W.restart()
                install_spy()

                def through_server(conn, tls, plugins):
                    s = W.accept(conn, ('10.0.0.9', 1))
                    if s is not None:
                        probes['sessions_made_by_kmip_server'] += 1
                    return s
                for ce in range(len(CERTS)):
                    for rq in range(len(REQUESTS)):
                        n = case_number(ce, tl, pl, rq)
                        cases.append(n)
                        run_case(n, through_server,
                                 {'via': 'KmipServer', 'flag_source': src})
        digest = kernel.digest_of(results)
        return {
            'violations': viol, 'nontrivial': True,
            'nt_keys': ['%s%d' % ('srv' if server_mode else 'case', n)
                        for n in cases],
            'key': digest, 'digest': digest, 'evals': len(cases),
            'faults': {'404_user': sum(1 for n in cases if n < 100000
                                       and 'user404' in case_of(n)[2]),
                       'unreachable': sum(1 for n in cases if n < 100000 and
                                          ('down_users' in case_of(n)[2]
                                           or 'down_groups' in
                                           case_of(n)[2])),
                       'bad_json': sum(1 for n in cases if n < 100000
                                       and 'badjson' in case_of(n)[2]),
                       'plugin_answer_changed_mid_session': sum(
                           1 for q in plan.get('seqs', [])
                           for k in range(1, len(SEQS[q]))
                           if SEQS[q][k] != SEQS[q][k - 1])},
            'probes': probes, 'sim_s': 0.0, 'steps': len(cases),
            'sample': [dict(zip(('cert', 'tls', 'plugins', 'request'),
                                case_of(n))) for n in cases[:3]
                       if n < 100000] or [list(SEQS[q])
                                          for q in plan['seqs'][:3]],
        }
    finally:
        W.close()
