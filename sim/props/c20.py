"""
C20 — secrets stay out of logs and error messages at the default log level.

Histories in which every secret-bearing value is a unique high-entropy
canary: registered key material and secret data, passwords in request
credentials, plaintext / ciphertext for Encrypt, Decrypt, MAC, Sign,
wrapping keys, derived keys and server-generated keys (learned afterwards
through Get as owner, with a retroactive scan). All failure paths are
provoked: decode failures (corrupted frames), permission, invalid field,
internal errors, disk errors during INSERT/UPDATE (LD_PRELOAD shim),
authentication failure, response too large; and the real client library
runs a part of the traffic so that the client-side loggers are covered.

Oracle: a root handler collects every record of level >= INFO on every
logger (message + formatted exception text); no canary may appear in raw,
hex (both cases), base64 or escaped-bytes form, no whole message encoding
(hex of a frame), and no canary in any result message.
"""
import base64
import copy

from sim import client as simclient
from sim import crash, gen, kernel, mutate, reqs, serverworld, world

ID = 'C20'
LEVEL = 'exploration'
NEEDS_SHIM = True
COUNT = {'quick': 1400, 'thorough': 30000}
BUDGET_S = {'quick': 80, 'thorough': 840}
DETERMINISM = {'quick': 12, 'thorough': 80}
CHUNK = 8
RULE = ('plan = history of 8-24 steps by 2 identities: object creation '
        'with canary values, cryptographic uses with canary data, reads, '
        'attribute operations, requests with a password credential, '
        'corrupted frames, permission failures, oversized responses, '
        'certificate/authentication failures, ENOSPC/EIO injected into a '
        'committing request, and real-client operations. Non-trivial: the '
        'run logged at least one exception record and handled >= 3 '
        'canaries. Distinct = trace digest.')
PROBES = ['exception_records', 'disk_error_during_commit', 'decode_failure',
          'auth_failure', 'response_too_large', 'general_failure',
          'client_library_ops', 'server_generated_canary',
          'password_credential', 'password_not_utf8', 'records_scanned',
          'server_front_end_runs', 'server_log_lines',
          'client_from_configuration']
REAL_VS_STUB = {
    'real': ['every logger call in kmip.services.server.*, '
             'kmip.services.kmip_client / kmip_protocol, kmip.pie.client',
             'SQLAlchemy exception texts (statement parameters)',
             'engine, session, crypto engine, client library'],
    'real (every 4th plan)': ['KmipServer.__init__/_setup_logging/start/'
                              'serve/_setup_connection_handler, '
                              'KmipServerConfig on a real configuration '
                              'file, RotatingFileHandler log file (scanned)'],
    'stub': ['logging handlers -> one collecting root handler at INFO',
             'disk errors -> LD_PRELOAD shim', 'TLS/clock/entropy/RSA pool'],
}
ASSUMPTIONS = [
    'a canary is any secret value of >= 8 bytes (shorter values would '
    'match by accident); names, identifiers and attribute values are not '
    'secrets',
    'loggers keep the levels the code gives them; the root level is INFO '
    '(the server default)',
]
A = gen.A


def canary_forms(hexval):
    b = bytes.fromhex(hexval)
    forms = {hexval.lower(), hexval.upper()}
    b64 = base64.b64encode(b).decode().rstrip('=')
    if len(b64) >= 11:
        forms.add(b64[:len(b64) - 2])
    rep = repr(b)[2:-1]
    if len(rep) >= 12:
        forms.add(rep)
    try:
        txt = b.decode('utf-8')
        if txt.isprintable() and len(txt) >= 8:
            forms.add(txt)
    except Exception:
        pass
    return forms


def generate(rng, tier, index):
    r = rng
    actors = [{'cn': 'alice'}, {'cn': 'bob'}]
    ctx = gen.Ctx(r, nactors=2)
    steps = []
    n = r.randint(8, 24)
    for i in range(n):
        x = r.random()
        a = r.randrange(2)
        if i < 2 or x < 0.3:
            ver = r.choice(gen.VERSIONS)
            y = r.random()
            if y < 0.5:
                op = gen.gen_register(ctx, ver, a, want_mask=0x29c)
                if 'value' in op['obj'] and op['otype'] in (
                        'SymmetricKey', 'SecretData', 'OpaqueData',
                        'SplitKey'):
                    ln = max(16, len(op['obj']['value']) // 2)
                    if op['otype'] in ('SymmetricKey', 'SplitKey'):
                        ln = op['obj']['len'] // 8
                    op['obj']['value'] = ctx.rbytes(max(ln, 8))
                    if op['otype'] in ('SymmetricKey', 'SplitKey'):
                        op['obj']['len'] = 8 * max(ln, 8)
            elif y < 0.85:
                op = gen.gen_create(ctx, ver, a, want_mask=0x29c)
            else:
                op = gen.gen_keypair(ctx, ver, a)
            st = {'actor': a, 'ver': list(ver), 'items': [op]}
            if r.random() < 0.3:
                st['cred'] = ['user-%d' % a, 'pw-' + ctx.rbytes(8)]
                if r.random() < 0.25:
                    # a password that is not valid UTF-8 (one damaged byte,
                    # a Latin-1 character): the request cannot be decoded
                    st['cred'][1] += r.choice([u'\udcfa', u'\udce9x',
                                               u'\udcc3'])
                if r.random() < 0.3 and ver >= (1, 1):
                    st['cred'] = [{'serial': 'sn-1',
                                   'password': 'pw-' + ctx.rbytes(8),
                                   'machine': 'm-1'}]
            steps.append(st)
            if r.random() < 0.5 and ctx.objs:
                steps.append({'actor': a, 'ver': [1, 2], 'items': [
                    {'op': 'Activate', 'uid': '@' + ctx.objs[-1]['label']}]})
        elif x < 0.5:
            ver = r.choice([(1, 2), (1, 4), (2, 0)])
            op = gen.gen_use(ctx, ver, a)
            if 'data' in op:
                op['data'] = ctx.rbytes(r.choice([16, 32, 48]))
            steps.append({'actor': a, 'ver': list(ver), 'items': [op]})
        elif x < 0.53:
            steps.append(gen.gen_request(ctx, actor=a))
        elif x < 0.56:
            # a derivation the cryptographic back end refuses with the base
            # key in hand (iteration count 0 / negative, missing salt, hash
            # it does not know, output too long, ...)
            ver = r.choice([(1, 2), (1, 4), (2, 0)])
            op = gen.gen_derive(ctx, ver, a, refuse=0.85)
            steps.append({'actor': a, 'ver': list(ver), 'items': [op]})
        elif x < 0.6:
            # operations that fail after some processing (invalid field,
            # wrong state, duplicate name, inapplicable attribute, ...)
            from sim.props import c08
            ver = r.choice([(1, 2), (1, 4), (2, 0)])
            if r.random() < 0.4:
                # an object whose declared size / format disagrees with its
                # (secret) value: rejected while the value is in hand
                op = gen.gen_register(ctx, ver, a, r.choice(
                    ['SymmetricKey', 'SymmetricKey', 'SplitKey',
                     'SecretData']))
                ctx.objs.pop()
                op['obj']['value'] = ctx.rbytes(r.choice([16, 24, 32]))
                if 'len' in op['obj']:
                    op['obj']['len'] = r.choice([64, 128, 256, 512, 8])
                if r.random() < 0.3:
                    # printable secret
                    op['obj']['value'] = ''.join(
                        '%02x' % ord(ch) for ch in 'pw' + ctx.rbytes(7))
                steps.append({'actor': a, 'ver': list(ver), 'items': [op]})
                continue
            steps.append({'actor': a, 'ver': list(ver),
                          'items': [c08.failing_op(ctx, r, ver, a)]})
        elif x < 0.7:
            # corrupted frame (decode failure path)
            rq = gen.gen_request(ctx, actor=a, p_batch=0)
            steps.append({'bad': rq, 'mut': mutate.gen_spec(r)})
        elif x < 0.78:
            # disk error inside a committing request
            ver = r.choice([(1, 2), (2, 0)])
            op = gen.gen_register(ctx, ver, a, r.choice(
                ['SymmetricKey', 'SecretData']))
            op['obj']['value'] = ctx.rbytes(32)
            if op['otype'] == 'SymmetricKey':
                op['obj']['len'] = 256
                op['obj']['alg'] = 3
            steps.append({'actor': a, 'ver': list(ver), 'items': [op],
                          'disk': [r.randrange(1, 30), r.choice([2, 3]),
                                   r.random() < 0.3]})
        elif x < 0.84:
            # oversized response
            o = ctx.pick_obj(None, 0)
            steps.append({'actor': a, 'ver': [1, 2], 'maxresp': r.choice(
                [16, 64, 128]), 'items': [{'op': 'Get',
                                           'uid': ctx.ref(o)}]})
        elif x < 0.9:
            steps.append({'authfail': r.choice(['nocert', 'twocn', 'noeku']),
                          'ver': [1, 2], 'items': [
                              {'op': 'Get', 'uid': ctx.ref(ctx.pick_obj())}],
                          'cred': ['admin', 'pw-' + ctx.rbytes(8)]})
        elif x < 0.93:
            # a client built from a configuration file / from arguments
            # that carry a password (shapes that upset the option parser
            # included); it then sends a request with that credential
            core = ctx.rbytes(8)
            steps.append({'client_config': r.choice(
                ['file', 'file', 'file', 'args']),
                'ver': list(r.choice(gen.VERSIONS)),
                'user': 'svc-%d' % r.randrange(9),
                'pw_core': core,
                'pw': r.choice(['%s', 'Tr0ub4dor%%%s', 'a%%(x)s%s',
                                '%s%%', 'p w "%s"', '%%%%%s', '${HOME}%s',
                                '#%s', ';%s', '%s=%s']).replace(
                                    '%s', core).replace('%%', '%')})
        else:
            steps.append({'client': r.choice(['register_get', 'encrypt',
                                              'mac', 'create_get']),
                          'ver': list(r.choice(gen.VERSIONS)),
                          'value': ctx.rbytes(32),
                          'data': ctx.rbytes(32)})
    plan = {'actors': actors, 'seed': r.randrange(1 << 30), 'steps': steps}
    if index % 4 == 3:
        # the real KmipServer front end: logger levels and the log file as
        # the server sets them up from its configuration file (logging
        # level left to its default, or INFO spelled out)
        plan['server'] = {'logging_level': r.choice([None, None, 'INFO'])}
    return plan


def collect_canaries(obj, out):
    """Every secret-bearing hex value in a request description."""
    if isinstance(obj, dict):
        for k, v in obj.items():
            if k in ('value', 'data', 'sig', 'iv', 'salt') and \
                    isinstance(v, str) and len(v) >= 16:
                try:
                    bytes.fromhex(v)
                    out.add(v)
                except ValueError:
                    pass
            else:
                collect_canaries(v, out)
    elif isinstance(obj, list):
        for v in obj:
            collect_canaries(v, out)


def execute(plan):
    sh = crash.shim()
    sh.reset()
    probes = dict((p, 0) for p in PROBES)
    faults = {'enospc': 0, 'eio': 0, 'garbage': 0}
    viol = []
    canaries = set()
    passwords = set()
    frames = []
    messages = []
    special = {'nocert': {'cn': 'x', 'nocert': True},
               'twocn': {'cn': 'x', 'cns': ['a', 'b']},
               'noeku': {'cn': 'x', 'eku': None}}
    actors = list(plan['actors']) + [special['nocert'], special['twocn'],
                                     special['noeku']]
    if plan.get('server') is not None:
        W = serverworld.ServerWorld(actors, None, seed=plan['seed'],
                                    server_opts=plan['server'])
        probes['server_front_end_runs'] += 1
    else:
        W = world.World(actors, None, seed=plan['seed'])
    kernel.LOG.keep_level = 20
    records = []

    def flag(oracle, **det):
        viol.append({'sig': {'oracle': oracle, 'where': det.get('where')},
                     'detail': det})

    def drain():
        records.extend(kernel.LOG.records)
        kernel.LOG.reset()

    def note_response(resp):
        if resp is None:
            return
        for it in resp.items:
            if it['message']:
                messages.append(it['message'])
            if it['reason_name'] == 'GeneralFailure':
                probes['general_failure'] += 1
            if it['reason_name'] == 'ResponseTooLarge':
                probes['response_too_large'] += 1
            if it['reason_name'] == 'AuthenticationNotSuccessful':
                probes['auth_failure'] += 1
            ob = it['payload'].get('object')
            if ob and isinstance(ob, dict) and ob.get('value') and \
                    isinstance(ob['value'], str) and len(ob['value']) >= 16:
                if ob['value'] not in canaries:
                    probes['server_generated_canary'] += 1
                canaries.add(ob['value'])
            for k in ('data', 'mac', 'sig'):
                v = it['payload'].get(k)
                if v and len(v) >= 16:
                    canaries.add(v)

    try:
        for st in plan['steps']:
            if 'bad' in st:
                f = reqs.build_request(st['bad'], W.resolve,
                                       now=W.clock.now)
                collect_canaries(st['bad'], canaries)
                try:
                    f = mutate.apply(f, st['mut'])
                except Exception:
                    pass
                frames.append(f)
                faults['garbage'] += 1
                sent = W.send_raw(st['bad']['actor'], f)
                for s_ in sent:
                    frames.append(s_)
                    try:
                        rp = reqs.Response(s_)
                        note_response(rp)
                        if rp.items and rp.items[0]['reason_name'] == \
                                'InvalidMessage':
                            probes['decode_failure'] += 1
                    except Exception:
                        pass
            elif 'client_config' in st:
                probes['client_from_configuration'] += 1
                import os as _os
                passwords.add(st['pw_core'])
                kw = {}
                if st['client_config'] == 'file':
                    cf = _os.path.join(W.dir, 'pykmip-%d.conf' % len(frames))
                    with open(cf, 'w') as fh:
                        fh.write('[client]\nhost=127.0.0.1\nport=5696\n'
                                 'ssl_version=PROTOCOL_SSLv23\n'
                                 'do_handshake_on_connect=True\n'
                                 'suppress_ragged_eofs=True\n'
                                 'username=%s\npassword=%s\n' % (
                                     st['user'], st['pw']))
                    kw = {'config': 'client', 'config_file': cf}
                else:
                    kw = {'username': st['user'], 'password': st['pw']}
                try:
                    c, sock = simclient.world_client(W, 0, tuple(st['ver']),
                                                     **kw)
                    try:
                        c.locate()
                        c.get('1')
                    except Exception as e:
                        messages.append('%s: %s' % (type(e).__name__, e))
                    for f in sock.requests:
                        frames.append(f)
                except Exception as e:
                    messages.append('%s: %s' % (type(e).__name__, e))
            elif 'client' in st:
                probes['client_library_ops'] += 1
                from kmip.core import enums
                from kmip.pie import objects as po
                canaries.add(st['value'])
                canaries.add(st['data'])
                c, sock = simclient.world_client(W, 0, tuple(st['ver']))
                try:
                    if st['client'] in ('register_get', 'encrypt', 'mac'):
                        key = po.SymmetricKey(
                            enums.CryptographicAlgorithm.AES, 256,
                            bytes.fromhex(st['value']),
                            masks=[enums.CryptographicUsageMask.ENCRYPT,
                                   enums.CryptographicUsageMask.MAC_GENERATE])
                        uid = c.register(key)
                        got = c.get(uid)
                        if st['client'] != 'register_get' and \
                                tuple(st['ver']) >= (1, 2):
                            c.activate(uid)
                            if st['client'] == 'encrypt':
                                out = c.encrypt(
                                    bytes.fromhex(st['data']), uid=uid,
                                    cryptographic_parameters={
                                        'cryptographic_algorithm':
                                        enums.CryptographicAlgorithm.AES,
                                        'block_cipher_mode':
                                        enums.BlockCipherMode.CBC,
                                        'padding_method':
                                        enums.PaddingMethod.PKCS5},
                                    iv_counter_nonce=b'\x01' * 16)
                                canaries.add(bytes(out[0]).hex())
                            else:
                                out = c.mac(
                                    bytes.fromhex(st['data']), uid=uid,
                                    algorithm=enums.CryptographicAlgorithm.
                                    HMAC_SHA256)
                                canaries.add(bytes(out[1]).hex())
                    else:
                        uid = c.create(enums.CryptographicAlgorithm.AES, 256)
                        got = c.get(uid)
                        canaries.add(bytes(got.value).hex())
                        probes['server_generated_canary'] += 1
                    # a failing client call as well
                    try:
                        c.get('no-such-id')
                    except Exception as e:
                        messages.append(str(e))
                except Exception as e:
                    messages.append('%s: %s' % (type(e).__name__, e))
                for f in sock.requests:
                    frames.append(f)
            else:
                rq = copy.deepcopy(st)
                ai = rq.get('actor', 0)
                if 'authfail' in st:
                    ai = 2 + ['nocert', 'twocn', 'noeku'].index(
                        st['authfail'])
                    rq['actor'] = ai
                collect_canaries(rq.get('items'), canaries)
                if rq.get('cred'):
                    cl_ = rq['cred']
                    if cl_ and not isinstance(cl_[0], (list, tuple, dict)):
                        cl_ = [cl_]
                    for c_ in cl_:
                        pw_ = c_.get('password') if isinstance(c_, dict) \
                            else c_[1]
                        if pw_:
                            passwords.add(pw_)
                            clean = pw_.encode(
                                'utf-8', 'surrogateescape').decode(
                                    'ascii', 'ignore')
                            if clean != pw_ and len(clean) >= 8:
                                passwords.add(clean)
                                probes['password_not_utf8'] += 1
                    probes['password_credential'] += 1
                disk = st.get('disk')
                if disk:
                    sh.arm(disk[0], disk[1], sticky=disk[2])
                resp = W.request(rq)
                if disk:
                    if sh.fired():
                        faults[crash.MODE_NAME[disk[1]]] += 1
                        probes['disk_error_during_commit'] += 1
                    sh.reset()
                frames.append(W.last['frame'])
                frames.extend(W.last['sent'])
                note_response(resp)
                # learn server-generated material as owner
                if resp is not None:
                    for op, it in zip(rq['items'], resp.items):
                        if it['status'] == 0 and op['op'] in (
                                'Create', 'DeriveKey', 'CreateKeyPair'):
                            for u in (it['payload'].get('uids') or []) + [
                                    it['payload'].get('private_uid')]:
                                if u:
                                    g = W.request(
                                        {'actor': ai, 'ver': [1, 2],
                                         'items': [{'op': 'Get',
                                                    'uid': u}]},
                                        record=False)
                                    note_response(g)
            W.clock.advance(1)
            drain()
        drain()
        # ---- the scan (retroactive over everything collected) -----------
        texts = []
        nexc = 0
        for name, lv, msg, exc in records:
            texts.append((name, lv, msg))
            if exc:
                nexc += 1
                texts.append((name, lv, exc))
        if plan.get('server') is not None:
            # what the server itself wrote to its log file, at the level
            # its own configuration gave the 'kmip.server' logger
            for line in W.server_log_text().splitlines():
                texts.append(('server.log', 0, line))
                probes['server_log_lines'] += 1
        probes['exception_records'] = nexc
        probes['records_scanned'] = len(texts)
        forms = []
        for cv in canaries:
            for f in canary_forms(cv):
                forms.append((f, cv))
        for name, lv, text in texts:
            for f, cv in forms:
                if f in text:
                    flag('secret-in-log', where='kmip.server.session'
                         if name.startswith('kmip.server.session') else name,
                         level=lv, canary=cv[:12] + '...',
                         excerpt=text[max(0, text.index(f) - 80):
                                      text.index(f) + 40])
                    break
            for pw in passwords:
                if pw in text:
                    flag('password-in-log', where=name, level=lv,
                         excerpt=text[max(0, text.index(pw) - 80):
                                      text.index(pw) + 20])
                    break
            for fr in frames:
                if len(fr) >= 32:
                    hx = fr[:32].hex()
                    if hx in text or hx.upper() in text:
                        flag('message-encoding-in-log', where=name,
                             level=lv)
                        break
        for m in messages:
            for f, cv in forms:
                if f in m:
                    flag('secret-in-result-message', where='response',
                         message=m[:200])
                    break
            for pw in passwords:
                if pw in m:
                    flag('password-in-result-message', where='response',
                         message=m[:200])
        nontrivial = nexc >= 1 and len(canaries) >= 3
        digest = kernel.digest_of([W.trace, len(texts),
                                   sorted(canaries)[:50]])
        return {
            'violations': viol, 'nontrivial': nontrivial, 'key': digest,
            'digest': digest, 'faults': faults, 'probes': probes,
            'sim_s': W.clock.covered(), 'steps': W.frames,
            'sample': {'steps': [
                'bad' if 'bad' in s else ('client:' + s['client'])
                if 'client' in s else
                ('authfail:' + s['authfail']) if 'authfail' in s else
                ('client_config:' + s['client_config'])
                if 'client_config' in s else
                [o['op'] for o in s['items']] for s in plan['steps']][:12],
                'canaries': len(canaries), 'log_records': len(texts)},
        }
    finally:
        sh.reset()
        kernel.LOG.keep_level = 20
        W.close()
