"""
C04 — object lifecycle is monotone and gates every cryptographic use.

Histories over {Create, CreateKeyPair, Register, Activate, Revoke(any
code), Destroy, Encrypt, Decrypt, Sign, SignatureVerify, MAC, DeriveKey,
Get-with-wrapping, restart}. The State column of every object is read
after every step and checked against the allowed-transition relation; a
cryptographic use may succeed only if the store said Active / right kind /
mask bit before the step. A systematic sweep of all letter sequences up to
a fixed depth on one object per type is mixed into the seeded batch.
"""
import copy

from sim import gen, kernel, model, world

ID = 'C04'
LEVEL = 'exploration'
SWEEP = {'quick': 819 * 7, 'thorough': 7380 * 7}
COUNT = {'quick': 819 * 7 + 900, 'thorough': 7380 * 7 + 20000}
BUDGET_S = {'quick': 80, 'thorough': 840}
DETERMINISM = {'quick': 16, 'thorough': 100}
CHUNK = 16
RULE = ('two sub-batches: (a) systematic sweep - every sequence of length '
        '<= 3 (quick, over 3 object types per seed) / <= 4 (thorough, all 7 '
        'types) over the 9-letter alphabet {Activate, Revoke-unspecified, '
        'Revoke-key-compromise, Revoke-CA-compromise, Destroy, matching '
        'use, mismatching use, use-as-wrapping-key, use-as-derivation-base} '
        'on one object with a seeded usage mask; (b) random histories of '
        '6-25 steps over several objects of all types with restarts. '
        'Non-trivial: an object went through >= 3 distinct states, or a '
        'cryptographic use was attempted on a non-Active object. Distinct '
        '= digest of the response/state trace.')
PROBES = ['derive_from_several_bases_succeeded', 'use_on_non_active_rejected', 'use_succeeded', 'wrap_succeeded',
          'derive_succeeded', 'destroy_of_active_refused',
          'revoke_from_preactive', 'compromised_reached',
          'deactivated_reached', 'mask_bit_missing_rejected', 'restart']
REAL_VS_STUB = {
    'real': ['KmipEngine handlers and guards', 'CryptographyEngine '
             '(encrypt/decrypt/sign/verify/mac/derive/wrap really run)',
             'KmipSession', 'SQLAlchemy+SQLite'],
    'stub': ['TLS/clock/entropy/RSA pool as in the inline world'],
}
ASSUMPTIONS = [
    'state, usage mask and object type are read from the SQLite tables '
    'before each step; that is the ground truth the guards are judged by',
    'MAC: the statement does not say which kinds of object are "the right '
    'kind"; only Active + MAC Generate bit are demanded',
]

LETTERS = ['A', 'Ru', 'Rk', 'Rc', 'D', 'U', 'X', 'W', 'K']
USE_FOR = {'SymmetricKey': 'Encrypt', 'PrivateKey': 'Sign',
           'PublicKey': 'SignatureVerify', 'SecretData': 'MAC',
           'SplitKey': 'Encrypt', 'Certificate': 'SignatureVerify',
           'OpaqueData': 'MAC'}
WRONG_FOR = {'SymmetricKey': 'Sign', 'PrivateKey': 'Encrypt',
             'PublicKey': 'Decrypt', 'SecretData': 'Encrypt',
             'SplitKey': 'MAC', 'Certificate': 'Encrypt',
             'OpaqueData': 'Decrypt'}


def use_op(kind, ref, r):
    if kind in ('Encrypt', 'Decrypt'):
        return {'op': kind, 'uid': ref,
                'cp': {'alg': 3, 'mode': 2, 'padding': 3},
                'data': '00112233445566778899aabbccddeeff'}
    if kind == 'Sign':
        return {'op': 'Sign', 'uid': ref,
                'cp': {'alg': 4, 'hash': 6, 'padding': 8}, 'data': '0a0b0c'}
    if kind == 'SignatureVerify':
        return {'op': 'SignatureVerify', 'uid': ref,
                'cp': {'alg': 4, 'hash': 6, 'padding': 8}, 'data': '0a0b0c',
                'sig': '11' * 128}
    return {'op': 'MAC', 'uid': ref, 'cp': {'alg': 9}, 'data': '0a0b0c'}


def letter_step(letter, otype, ref, r, ver):
    if letter == 'A':
        op = {'op': 'Activate', 'uid': ref}
    elif letter in ('Ru', 'Rk', 'Rc'):
        op = {'op': 'Revoke', 'uid': ref,
              'code': {'Ru': r.choice([1, 4, 5, 6, 7]), 'Rk': 2,
                       'Rc': 3}[letter]}
    elif letter == 'D':
        op = {'op': 'Destroy', 'uid': ref}
    elif letter == 'U':
        op = use_op(USE_FOR[otype], ref, r)
    elif letter == 'X':
        op = use_op(WRONG_FOR[otype], ref, r)
    elif letter == 'W':
        op = {'op': 'Get', 'uid': '@victim', 'wrapspec': {
            'method': 1, 'enc': {'uid': ref, 'cp': {'mode': 0xD}},
            'encoding': 1}}
    else:
        op = {'op': 'DeriveKey', 'otype': 'SymmetricKey', 'uids': [ref],
              'method': 3, 'params': {'cp': {'hash': 6}, 'data': 'aabbccdd'},
              'attrs': [gen.A('Cryptographic Length', 128),
                        gen.A('Cryptographic Algorithm', 3),
                        gen.A('Cryptographic Usage Mask', 12)]}
    return {'actor': 0, 'ver': list(ver), 'items': [op]}


def mask_choice(r, otype):
    need = {'Encrypt': 4, 'Decrypt': 8, 'Sign': 1, 'SignatureVerify': 2,
            'MAC': 0x80}[USE_FOR[otype]]
    return r.choice([gen.ALL_MASK, gen.ALL_MASK, gen.ALL_MASK & ~need,
                     gen.ALL_MASK & ~0x10, gen.ALL_MASK & ~0x200, need,
                     need | 0x10 | 0x200, 0])


def generate(rng, tier, index):
    r = rng
    actors = [{'cn': 'owner'}]
    ver = r.choice([(1, 2), (1, 3), (1, 4), (2, 0)])
    steps = []
    victim = {'actor': 0, 'ver': [1, 2], 'items': [{
        'op': 'Register', 'label': 'victim', 'otype': 'SymmetricKey',
        'attrs': [gen.A('Cryptographic Usage Mask', 12)],
        'obj': {'kft': 1, 'value': '77' * 16, 'alg': 3, 'len': 128}}]}
    nsweep = SWEEP[tier]
    if index < nsweep:
        per_type = 819 if tier == 'quick' else 7380
        tix, six = divmod(index, per_type)
        otype = gen.OTYPES[tix]
        seq = []
        n = six
        length = 1
        while n >= 9 ** length:
            n -= 9 ** length
            length += 1
        for _ in range(length):
            seq.append(LETTERS[n % 9])
            n //= 9
        ctx = gen.Ctx(r, 1)
        reg = gen.gen_register(ctx, (1, 2), 0, otype)
        reg['label'] = 'x'
        reg['attrs'] = [] if otype == 'OpaqueData' else [
            gen.A('Cryptographic Usage Mask', mask_choice(r, otype))]
        steps = [victim, {'actor': 0, 'ver': [1, 2], 'items': [reg]}]
        for le in seq:
            steps.append(letter_step(le, otype, '@x', r, ver))
        return {'actors': actors, 'seed': r.randrange(1 << 30),
                'steps': steps, 'sweep': [otype] + seq}
    # random histories
    ctx = gen.Ctx(r, 1)
    steps = [victim]
    objs = []
    n = r.randint(6, 25)
    for i in range(n):
        x = r.random()
        if i < 2 or x < 0.2:
            y = r.random()
            if y < 0.3:
                op = gen.gen_create(ctx, (1, 2), 0)
                ot = 'SymmetricKey'
            elif y < 0.9:
                ot = r.choice(gen.OTYPES)
                op = gen.gen_register(ctx, (1, 2), 0, ot)
            else:
                op = gen.gen_keypair(ctx, (1, 2), 0)
                ot = 'PrivateKey'
                objs.append((op['label'] + '.pub', 'PublicKey'))
            if ot != 'OpaqueData' and op['op'] != 'CreateKeyPair':
                op['attrs'] = [a for a in op['attrs']
                               if a['n'] != 'Cryptographic Usage Mask'] + [
                    gen.A('Cryptographic Usage Mask', mask_choice(r, ot))]
            objs.append((op['label'], ot))
            steps.append({'actor': 0, 'ver': [1, 2], 'items': [op]})
        elif x < 0.25:
            steps.append({'restart': True})
        elif x < 0.33 and len([o for o in objs if o[1] in (
                'SymmetricKey', 'SecretData')]) >= 2:
            # a derivation from several base objects whose masks differ:
            # every one of them needs the Derive Key bit, in any position
            cand = [o for o in objs if o[1] in ('SymmetricKey', 'SecretData')]
            base = r.sample(cand, min(len(cand), r.choice([2, 2, 3])))
            st = letter_step('K', 'SymmetricKey', '@' + base[0][0], r, ver)
            st['items'][0]['uids'] = ['@' + b[0] for b in base]
            steps.append(st)
        elif x < 0.42:
            # use - leave the Active state - use again, on one object: a
            # use that worked while Active must stop working afterwards
            # (whatever the server remembered from the first use)
            lab, ot = r.choice(objs)
            use = r.choice(['U', 'W', 'K', 'U'])
            for le in ['A', use, r.choice(['Ru', 'Rk', 'Rc']), use] + \
                    (['D', use] if r.random() < 0.4 else []):
                steps.append(letter_step(le, ot, '@' + lab, r, ver))
        elif x < 0.50:
            # a use that NAMES one object, inside a batch whose earlier
            # items made another object usable (created with every mask
            # bit, activated through the ID placeholder): the gate is the
            # state, kind and mask of the object the item names
            lab, ot = r.choice(objs)
            mk = {'op': 'Create', 'label': ctx.label(),
                  'otype': 'SymmetricKey', 'attrs': [
                      gen.A('Cryptographic Algorithm', 3),
                      gen.A('Cryptographic Length', 128),
                      gen.A('Cryptographic Usage Mask', gen.ALL_MASK)]}
            use = letter_step(r.choice(['U', 'U', 'X', 'W', 'K']), ot,
                              '@' + lab, r, ver)['items'][0]
            steps.append({'actor': 0, 'ver': list(ver), 'cont': 1,
                          'items': [mk, {'op': 'Activate'}, use]})
            objs.append((mk['label'], 'SymmetricKey'))
        else:
            lab, ot = r.choice(objs)
            le = r.choice(LETTERS + ['A', 'U', 'U', 'Rk'])
            steps.append(letter_step(le, ot, '@' + lab, r, ver))
    return {'actors': actors, 'seed': r.randrange(1 << 30), 'steps': steps}


COMPROMISE = (2, 3)


def execute(plan):
    probes = dict((p, 0) for p in PROBES)
    viol = []
    W = world.World(plan['actors'], None, seed=plan['seed'])
    seen_states = {}
    attempted_non_active = False
    trace = []

    def flag(oracle, **det):
        viol.append({'sig': {'oracle': oracle, 'op': det.get('op'),
                             'otype': det.get('otype')}, 'detail': det})

    try:
        for si, st in enumerate(plan['steps']):
            if 'restart' in st:
                before = model.store_view(W.db)
                W.restart()
                probes['restart'] += 1
                after = model.store_view(W.db)
                if before != after:
                    flag('restart-changed-store')
                continue
            before = model.store_view(W.db)
            resp = W.request(copy.deepcopy(st))
            W.clock.advance(1)
            after = model.store_view(W.db)
            items = [] if resp is None else resp.items
            # which transitions does this step justify?
            justified = {}     # uid -> set of allowed (old, new)
            destroyed_ok = set()
            for op, it in zip(st['items'], items):
                name = op['op']
                ok = it['status'] == 0
                uid = W.resolve(op['uid']) if op.get('uid') else None
                o = before.get(uid) if uid else None
                if name == 'Activate' and ok and uid:
                    justified.setdefault(uid, set()).add(
                        (model.PRE_ACTIVE, model.ACTIVE))
                elif name == 'Revoke' and ok and uid:
                    s = justified.setdefault(uid, set())
                    s.add((model.ACTIVE, model.DEACTIVATED))
                    if op.get('code') in COMPROMISE:
                        for a in (model.PRE_ACTIVE, model.ACTIVE,
                                  model.DEACTIVATED, model.COMPROMISED):
                            s.add((a, model.COMPROMISED))
                    if o is not None and o['state'] == model.PRE_ACTIVE:
                        probes['revoke_from_preactive'] += 1
                elif name == 'Destroy' and uid:
                    if ok:
                        destroyed_ok.add(uid)
                        if o is not None and o['state'] == model.ACTIVE:
                            flag('active-object-destroyed', op='Destroy',
                                 otype=o['otype'], uid=uid)
                    elif o is not None and o['state'] == model.ACTIVE:
                        probes['destroy_of_active_refused'] += 1
                        if uid not in after:
                            flag('refused-destroy-removed-object',
                                 op='Destroy', otype=o['otype'])
                elif name in model.USE_REQUIREMENTS and uid:
                    kind, bit = model.USE_REQUIREMENTS[name]
                    if o is not None and o['state'] != model.ACTIVE:
                        attempted_non_active = True
                    if ok:
                        probes['use_succeeded'] += 1
                        if o is None:
                            flag('use-of-missing-object-succeeded', op=name)
                        else:
                            if o['state'] != model.ACTIVE:
                                flag('use-while-not-active', op=name,
                                     otype=o['otype'], state=o['state'],
                                     uid=uid)
                            if kind is not None and o['otype'] != kind:
                                flag('use-of-wrong-kind', op=name,
                                     otype=o['otype'], uid=uid)
                            if not (o['mask'] or 0) & bit:
                                flag('use-without-mask-bit', op=name,
                                     otype=o['otype'], mask=o['mask'],
                                     uid=uid)
                    elif o is not None:
                        if o['state'] != model.ACTIVE:
                            probes['use_on_non_active_rejected'] += 1
                        elif not (o['mask'] or 0) & bit:
                            probes['mask_bit_missing_rejected'] += 1
                elif name == 'Get' and op.get('wrapspec') and \
                        op['wrapspec'].get('enc'):
                    kuid = W.resolve(op['wrapspec']['enc']['uid'])
                    k = before.get(kuid)
                    if k is not None and k['state'] != model.ACTIVE:
                        attempted_non_active = True
                    if ok:
                        probes['wrap_succeeded'] += 1
                        if k is None or k['state'] != model.ACTIVE or \
                                k['otype'] != 'SYMMETRIC_KEY' or \
                                not (k['mask'] or 0) & 0x10:
                            flag('wrap-with-unusable-key', op='Get',
                                 otype=None if k is None else k['otype'],
                                 key=k and {'state': k['state'],
                                            'mask': k['mask']})
                elif name == 'DeriveKey' and ok:
                    probes['derive_succeeded'] += 1
                    if len(op.get('uids', [])) > 1:
                        probes['derive_from_several_bases_succeeded'] += 1
                    for u in op.get('uids', []):
                        b = before.get(W.resolve(u))
                        if b is None or not (b['mask'] or 0) & 0x200:
                            flag('derive-without-derive-bit', op='DeriveKey',
                                 otype=None if b is None else b['otype'],
                                 mask=None if b is None else b['mask'])
            # compare states
            for uid, o in before.items():
                a = after.get(uid)
                if a is None:
                    if uid not in destroyed_ok:
                        flag('object-vanished-without-destroy',
                             otype=o['otype'], op=[x['op']
                                                   for x in st['items']])
                    continue
                seen_states.setdefault(uid, set()).add(o['state'])
                seen_states[uid].add(a['state'])
                if a['state'] == model.COMPROMISED:
                    probes['compromised_reached'] += 1
                if a['state'] == model.DEACTIVATED:
                    probes['deactivated_reached'] += 1
                if a['state'] != o['state']:
                    tr = (o['state'], a['state'])
                    if tr not in model.ALLOWED_TRANSITIONS:
                        flag('illegal-transition', otype=o['otype'],
                             op=[x['op'] for x in st['items']],
                             transition=tr, uid=uid)
                    elif tr not in justified.get(uid, ()):
                        flag('transition-not-caused-by-activate-or-revoke',
                             otype=o['otype'],
                             op=[x['op'] for x in st['items']],
                             transition=tr, uid=uid)
            for uid in destroyed_ok:
                if uid in after:
                    flag('destroyed-object-still-stored', op='Destroy',
                         otype=after[uid]['otype'])
            trace.append([(it['status'], it['reason'], it['message'])
                          for it in items])
            trace.append(sorted((u, o['state']) for u, o in after.items()))
        nontrivial = attempted_non_active or any(
            len([s for s in v if s is not None]) >= 3
            for v in seen_states.values())
        digest = kernel.digest_of([W.trace, trace])
        return {
            'violations': viol, 'nontrivial': nontrivial, 'key': digest,
            'digest': digest, 'faults': {'restart_clean': W.restarts},
            'probes': probes,
            'states': [kernel.digest_of(x) for x in trace[1::2]],
            'sim_s': W.clock.covered(), 'steps': W.requests,
            'sample': plan.get('sweep') or [
                [o['op'] for o in s['items']] if 'items' in s else 'restart'
                for s in plan['steps']],
        }
    finally:
        W.close()
