"""
C18 — policies in force follow the policy files; built-in policies are
untouchable.

The real PolicyDirectoryMonitor is driven step by step (scan_policies())
and, in a live sub-batch, through its real run() loop under the
deterministic scheduler with a simulated clock. Real files in a scratch
directory; mtimes are set from the simulated clock with os.utime. File
system races are injected through a wrapper around the monitor module's
`os`.

Oracle: "latest good load wins" model - per file its last good load
(sequence number, {name: definition}); after each scan the store must be
built-ins + {name -> definition from the most recently loaded file that
still exists and whose last good load defines the name}. Every written
definition is unique, so each store entry is attributable to one write.
"""
import copy
import json
import os
import shutil

from sim import kernel

ID = 'C18'
LEVEL = 'exploration'
SWEEP_ALPHA = 9
SWEEP = {'quick': 9 + 81 + 729, 'thorough': 9 + 81 + 729 + 6561}
COUNT = {'quick': SWEEP['quick'] + 9000, 'thorough': SWEEP['thorough'] +
         60000}
BUDGET_S = {'quick': 75, 'thorough': 780}
DETERMINISM = {'quick': 24, 'thorough': 150}
CHUNK = 40
RULE = ('event sequences over 3 files x 3 policy names (+ reserved names): '
        'write(file, names) with unique definitions in every documented '
        'shape, write_invalid(file, kind of 9), remove, touch, scan, clock '
        'advance; sub-batch (a) sweeps ALL sequences of <= 3 (quick) / <= 4 '
        '(thorough) events over a reduced 9-letter alphabet, each event '
        'followed by a scan; (b) random sequences up to 30 events with '
        'faults torn_write, vanish_race, mtime_tie, clock jump back, monitor '
        'restart; (c) live mode: the real run() loop under the scheduler, '
        'store must equal the model within 2 simulated seconds after the '
        'last event. Non-trivial: a name defined by >= 2 files and >= 1 '
        'removal or un-define. Distinct = event-sequence digest.')
PROBES = ['shadowed_name', 'restored_after_removal', 'undefined_by_edit',
          'invalid_file_rejected', 'reserved_name_in_file', 'torn_write',
          'vanish_race', 'mtime_tie', 'monitor_restart', 'live_mode',
          'same_scan_conflict', 'empty_policy', 'server_front_end',
          'in_force_probes']
REAL_VS_STUB = {
    'real': ['PolicyDirectoryMonitor.scan_policies / run / '
             'initialize_tracking_structures / restore_or_delete_policy',
             'core.policy.read_policy_from_file / parse_policy',
             'real files, real os.listdir / getmtime / open'],
    'real (every 6th random plan)': [
        'KmipServer.start(): Manager dict + monitor + engine wiring, '
        'KmipEngine access decisions on the shared store'],
    'stub': ['multiprocessing.Manager().dict() -> plain dict (same per-key '
             'atomicity under baton passing)', 'time.sleep / time.time -> '
             'simulated clock', 'process start (run() is called in a '
             'scheduler task)', 'monitor.os wrapped to inject list/stat '
             'races'],
}
ASSUMPTIONS = [
    'the statement does not say which of two files (re)loaded in the SAME '
    'scan is more recent: for a name both define either winner is accepted',
    'an edit that does not advance the file mtime (mtime_tie / clock jump '
    'back) may be missed until the mtime advances',
]

FILES = ['a.json', 'b.json', 'c.json']
NAMES = ['p', 'q', 'r']
INVALID_KINDS = ['bad_json', 'top_list', 'policy_scalar', 'preset_scalar',
                 'bad_object_type', 'bad_operation', 'bad_permission',
                 'bad_section', 'mixed_sections', 'permission_list',
                 'permission_object', 'permission_number', 'permission_null',
                 'operations_scalar', 'operations_list', 'group_scalar',
                 'groups_list',
                 # "empty-looking" values of the wrong type in every
                 # position where an object is required
                 'policy_null', 'policy_empty_list', 'policy_empty_string',
                 'policy_zero', 'policy_false', 'preset_empty_list',
                 'preset_zero', 'groups_empty_list', 'group_null',
                 'operations_null', 'operations_empty_list', 'top_null',
                 'top_zero', 'top_empty_string',
                 # broken at the level of bytes: what an editor, a copy in
                 # progress or a full disk leaves behind
                 'empty_file', 'whitespace_only', 'truncated_half',
                 'truncated_one', 'nul_bytes', 'non_utf8', 'bom']
OTS = ['SYMMETRIC_KEY', 'PUBLIC_KEY', 'CERTIFICATE', 'SECRET_DATA']
OPS = ['GET', 'LOCATE', 'DESTROY', 'ACTIVATE', 'GET_ATTRIBUTES']
PERMS = ['ALLOW_ALL', 'ALLOW_OWNER', 'DISALLOW_ALL']


def unique_policy(r, serial, shape=None):
    """A policy document whose content encodes `serial` (unique)."""
    def section(k):
        s = {}
        n = serial * 7 + k
        for i, ot in enumerate(OTS):
            if (n >> i) & 1 or i == 0:
                s[ot] = dict((op, PERMS[(n // (3 ** j)) % 3])
                             for j, op in enumerate(OPS))
        # the serial itself, spelled in permissions of the first type
        bits = dict(('_' + str(b), 0) for b in range(0))
        s[OTS[0]]['GET'] = PERMS[serial % 3]
        s[OTS[0]]['LOCATE'] = PERMS[(serial // 3) % 3]
        s[OTS[0]]['DESTROY'] = PERMS[(serial // 9) % 3]
        s[OTS[0]]['ACTIVATE'] = PERMS[(serial // 27) % 3]
        s[OTS[0]]['GET_ATTRIBUTES'] = PERMS[(serial // 81) % 3]
        s.setdefault(OTS[1], {})['GET'] = PERMS[(serial // 243) % 3]
        s.setdefault(OTS[1], {})['LOCATE'] = PERMS[(serial // 729) % 3]
        return s
    shape = shape or r.choice(['preset', 'groups', 'both', 'flat'])
    if shape == 'flat':
        return section(0)
    d = {}
    if shape in ('preset', 'both'):
        d['preset'] = section(0)
    if shape in ('groups', 'both'):
        d['groups'] = {'g1': section(1)}
        if r.random() < 0.3:
            d['groups']['g2'] = section(2)
    return d


def invalid_text(kind, good, pos=0):
    doc = copy.deepcopy(good) or {'p': {'preset': {'SYMMETRIC_KEY': {
        'GET': 'ALLOW_ALL'}}}}
    first = list(doc)[min(pos, len(doc) - 1)]
    if kind == 'bad_json':
        return json.dumps(doc)[:-3] + ',,'
    if kind == 'empty_file':
        return ''
    if kind == 'whitespace_only':
        return ' \n\t\n'
    if kind == 'truncated_half':
        text = json.dumps(doc)
        return text[:len(text) // 2]
    if kind == 'truncated_one':
        return json.dumps(doc)[:1]
    if kind == 'nul_bytes':
        return '\x00' * 64
    if kind == 'non_utf8':
        # written with surrogateescape: the byte 0xff inside a name
        return json.dumps(doc).replace('"', '"\udcff', 1)
    if kind == 'bom':
        return '\ufeff' + json.dumps(doc)
    if kind == 'top_list':
        return json.dumps([1, 2])
    if kind == 'policy_scalar':
        doc[first] = 5
        return json.dumps(doc)
    falsy = {'policy_null': None, 'policy_empty_list': [],
             'policy_empty_string': '', 'policy_zero': 0,
             'policy_false': False}
    if kind in falsy:
        doc[first] = falsy[kind]
        return json.dumps(doc)
    if kind in ('top_null', 'top_zero', 'top_empty_string'):
        return json.dumps({'top_null': None, 'top_zero': 0,
                           'top_empty_string': ''}[kind])
    if kind in ('preset_empty_list', 'preset_zero'):
        doc[first] = {'preset': [] if kind == 'preset_empty_list' else 0}
        return json.dumps(doc)
    if kind == 'groups_empty_list':
        doc[first] = {'groups': []}
        return json.dumps(doc)
    if kind == 'group_null':
        doc[first] = {'groups': {'g1': None}}
        return json.dumps(doc)
    if kind == 'preset_scalar':
        doc[first] = {'preset': 5}
        return json.dumps(doc)
    sec = doc[first].get('preset') or (doc[first].get('groups') or
                                       {}).get('g1') or doc[first]
    if not isinstance(sec, dict) or not sec:
        doc[first] = {'preset': {'SYMMETRIC_KEY': {'GET': 'ALLOW_ALL'}}}
        sec = doc[first]['preset']
    ot = sorted(sec)[0]
    if kind == 'bad_object_type':
        sec['FLYING_KEY'] = {'GET': 'ALLOW_ALL'}
    elif kind == 'bad_operation':
        sec[ot]['TELEPORT'] = 'ALLOW_ALL'
    elif kind == 'bad_permission':
        sec[ot][sorted(sec[ot])[0]] = 'ALLOW_SOME'
    elif kind in ('permission_list', 'permission_object',
                  'permission_number', 'permission_null'):
        # the one position of a policy where an enumeration name is a
        # JSON value, not a key: any JSON type can stand there
        sec[ot][sorted(sec[ot])[0]] = {
            'permission_list': ['ALLOW_ALL'], 'permission_object':
            {'ALLOW_ALL': True}, 'permission_number': 1,
            'permission_null': None}[kind]
    elif kind == 'operations_null':
        sec[ot] = None
    elif kind == 'operations_empty_list':
        sec[ot] = []
    elif kind == 'operations_scalar':
        sec[ot] = 'ALLOW_ALL'
    elif kind == 'operations_list':
        sec[ot] = [['GET', 'ALLOW_ALL']]
    elif kind == 'group_scalar':
        doc[first] = {'groups': {'g1': 7}}
    elif kind == 'groups_list':
        doc[first] = {'groups': [sec]}
    elif kind == 'bad_section':
        doc[first] = {'presets': sec}
    elif kind == 'mixed_sections':
        doc[first] = {'preset': sec, 'SYMMETRIC_KEY': {'GET': 'ALLOW_ALL'}}
    return json.dumps(doc)


def gen_event(r, serial, letter=None):
    """One file event (JSON-able)."""
    if letter is None:
        letter = r.choice(['w', 'w', 'w', 'w2', 'inv', 'rm', 'touch',
                           'scan', 'clock', 'w_reserved', 'w_empty'])
    f = r.choice(FILES)
    if letter in ('w', 'w2', 'w_reserved', 'w_empty'):
        names = r.sample(NAMES, 1 if letter == 'w' else r.choice([1, 2, 3]))
        doc = {}
        for nm in names:
            serial[0] += 1
            doc[nm] = unique_policy(r, serial[0])
        if letter == 'w_reserved':
            serial[0] += 1
            doc[r.choice(['default', 'public'])] = unique_policy(
                r, serial[0], 'preset')
        if letter == 'w_empty':
            doc[r.choice(NAMES)] = {}
        return {'ev': 'write', 'file': f, 'doc': doc}
    if letter == 'inv':
        doc = {}
        for nm in r.sample(NAMES, r.choice([1, 2, 3])):
            serial[0] += 1
            doc[nm] = unique_policy(r, serial[0], 'preset')
        return {'ev': 'invalid', 'file': f, 'kind': r.choice(INVALID_KINDS),
                'doc': doc, 'pos': r.randrange(len(doc))}
    if letter == 'rm':
        return {'ev': 'remove', 'file': f}
    if letter == 'touch':
        return {'ev': 'touch', 'file': f}
    if letter == 'clock':
        return {'ev': 'clock', 'dt': r.choice([1, 2, 5, 0.5])}
    return {'ev': 'scan'}


SWEEP_LETTERS = [('w', 'a.json', ['p']), ('w', 'b.json', ['p']),
                 ('w', 'a.json', ['q']), ('w', 'b.json', ['p', 'q']),
                 ('inv', 'a.json', None), ('inv', 'b.json', None),
                 ('rm', 'a.json', None), ('rm', 'b.json', None),
                 ('touch', 'a.json', None)]


def generate(rng, tier, index):
    r = rng
    serial = [0]
    if index < SWEEP[tier]:
        n = index
        length = 1
        while n >= SWEEP_ALPHA ** length:
            n -= SWEEP_ALPHA ** length
            length += 1
        events = []
        for _ in range(length):
            kind, f, names = SWEEP_LETTERS[n % SWEEP_ALPHA]
            n //= SWEEP_ALPHA
            if kind == 'w':
                doc = {}
                for nm in names:
                    serial[0] += 1
                    doc[nm] = unique_policy(r, serial[0])
                events.append({'ev': 'write', 'file': f, 'doc': doc})
            elif kind == 'inv':
                serial[0] += 1
                events.append({'ev': 'invalid', 'file': f,
                               'kind': r.choice(INVALID_KINDS),
                               'doc': {'p': unique_policy(r, serial[0],
                                                          'preset')}})
            elif kind == 'rm':
                events.append({'ev': 'remove', 'file': f})
            else:
                events.append({'ev': 'touch', 'file': f})
            events.append({'ev': 'scan'})
        return {'mode': 'step', 'events': events, 'seed': 0,
                'sweep': True}
    x = r.random()
    events = []
    n = r.randint(4, 30)
    for _ in range(n):
        e = gen_event(r, serial)
        y = r.random()
        if e['ev'] == 'write' and y < 0.08:
            e['fault'] = 'torn'
        elif e['ev'] in ('write', 'invalid') and y < 0.16:
            e['fault'] = 'mtime_tie'
        elif e['ev'] == 'scan' and y < 0.25:
            e['fault'] = r.choice(['vanish_before_stat',
                                   'vanish_before_open'])
            e['file'] = r.choice(FILES)
        elif e['ev'] == 'clock' and y < 0.15:
            e['dt'] = -r.choice([1, 3])
        events.append(e)
        if r.random() < 0.55:
            events.append({'ev': 'scan'})
        if r.random() < 0.04:
            events.append({'ev': 'monitor_restart'})
    events.append({'ev': 'scan'})
    mode = 'live' if x < 0.12 else 'step'
    if mode == 'live':
        events = [e for e in events if e['ev'] not in (
            'scan', 'monitor_restart') and not e.get('fault')]
    plan = {'mode': mode, 'events': events, 'seed': r.randrange(1 << 30),
            'sweep': False}
    if mode == 'step' and index % 6 == 5:
        # the monitor, the shared store and the engine as the real
        # KmipServer wires them together (live_policies on); "in force" is
        # then also observed through the engine's decisions
        plan['server'] = True
    return plan


# ---------------------------------------------------------------------------
class Model(object):
    """Latest good load wins."""

    def __init__(self, parse):
        self.parse = parse
        self.loads = {}      # file -> (seq, {name: definition}) last GOOD
        self.seq = 0
        self.pending = {}    # file -> (text, visible mtime changed?)

    def loaded(self, f, names_defs, scan_no):
        self.seq += 1
        self.loads[f] = (self.seq, names_defs, scan_no)

    def removed(self, f):
        self.loads.pop(f, None)

    def expected(self):
        """name -> set of acceptable definitions (JSON text)"""
        out = {}
        for name in set(n for _, d, _ in self.loads.values() for n in d):
            cands = [(seq, scan, d[name]) for seq, d, scan in
                     self.loads.values() if name in d]
            top_scan = max(c[1] for c in cands)
            best = [c for c in cands if c[1] == top_scan]
            out[name] = [c[2] for c in best]
        return out


def canon(defn):
    """Engine-format policy (enum keyed) -> canonical JSON text."""
    def conv(x):
        if isinstance(x, dict):
            return dict((getattr(k, 'name', k), conv(v))
                        for k, v in x.items())
        return getattr(x, 'name', x)
    return json.dumps(conv(defn), sort_keys=True)


class ProxyDict(dict):
    """Plain-dict stand-in for multiprocessing.Manager().dict(): like the
    DictProxy, keys()/values()/items() return lists (copies)."""

    def keys(self):
        return list(dict.keys(self))

    def values(self):
        return list(dict.values(self))

    def items(self):
        return list(dict.items(self))


class FaultyOs(object):
    """Wraps `os` inside the monitor module to inject races."""

    class _Path(object):
        def __init__(self, outer):
            self.outer = outer

        def getmtime(self, p):
            o = self.outer
            if o.vanish_before_stat and p.endswith(o.vanish_before_stat):
                o.fired += 1
                o.vanish_before_stat = None
                try:
                    os.remove(p)
                except OSError:
                    pass
            return os.path.getmtime(p)

        def __getattr__(self, n):
            return getattr(os.path, n)

    def __init__(self):
        self.path = FaultyOs._Path(self)
        self.vanish_before_stat = None
        self.fired = 0

    def __getattr__(self, n):
        return getattr(os, n)


def execute(plan):
    kernel.reset(None, plan['seed'])
    import kmip.services.server.monitor as mon
    from kmip.core import policy as core_policy
    probes = dict((p, 0) for p in PROBES)
    faults = {'torn_write': 0, 'vanish_race': 0, 'mtime_tie': 0,
              'jump_back': 0, 'monitor_restart': 0}
    viol = []
    root = os.path.join(kernel.scratch_root(),
                        'pykmip-verif-%d' % os.getpid(), 'c18-%d' % id(plan))
    shutil.rmtree(root, ignore_errors=True)
    os.makedirs(root)
    clock = kernel.TIME.clock
    fos = FaultyOs()
    real_os = mon.os
    mon.os = fos
    builtin = copy.deepcopy(core_policy.policies)
    store = ProxyDict(copy.deepcopy(core_policy.policies))
    W = None
    if plan.get('server'):
        from sim import serverworld
        probes['server_front_end'] += 1
        W = serverworld.ServerWorld(
            [{'cn': 'alice'}, {'cn': 'bob'}], None, seed=plan['seed'],
            server_opts={'live': True})
        clock = kernel.TIME.clock
        shutil.rmtree(root, ignore_errors=True)
        root = W.policy_dir
        store = W.policies
        # one object per policy name, owned by alice
        from sim import gen
        for nm in NAMES:
            W.request({'actor': 0, 'ver': [1, 2], 'items': [{
                'op': 'Register', 'label': 'obj-' + nm,
                'otype': 'SymmetricKey',
                'attrs': [gen.A('Cryptographic Usage Mask', 12),
                          gen.A('Operation Policy Name', nm)],
                'obj': {'kft': 1, 'value': '33' * 16, 'alg': 3,
                        'len': 128}}]})
    M = Model(None)
    trace = []
    mtimes = {}

    def flag(oracle, **det):
        viol.append({'sig': {'oracle': oracle, 'why': det.get('why')},
                     'detail': det})

    def path(f):
        return os.path.join(root, f)

    def write_file(f, text, tie=False):
        p = path(f)
        with open(p, 'w', encoding='utf-8',
                  errors='surrogateescape') as fh:
            fh.write(text)
        t = clock.now
        if tie and f in mtimes:
            t = mtimes[f]
        mtimes[f] = t
        os.utime(p, (t, t))

    # what the model knows about file contents: text -> good defs or None
    contents = {}     # file -> (text, mtime)

    def good_defs(text):
        """Parse with an independent reading of the documented format."""
        try:
            text.encode('utf-8')
            doc = json.loads(text)
        except Exception:
            return None
        if not isinstance(doc, dict):
            return None
        out = {}
        ots = set(['CERTIFICATE', 'SYMMETRIC_KEY', 'PUBLIC_KEY',
                   'PRIVATE_KEY', 'SPLIT_KEY', 'TEMPLATE', 'SECRET_DATA',
                   'OPAQUE_DATA', 'PGP_KEY'])

        def sec_ok(s):
            if not isinstance(s, dict):
                return False
            for ot, ops in s.items():
                if ot not in ots or not isinstance(ops, dict):
                    return False
                for op, perm in ops.items():
                    if perm not in PERMS or op not in KNOWN_OPS:
                        return False
            return True
        for name, pol in doc.items():
            if not isinstance(pol, dict):
                return None
            if not pol:
                continue
            keys = set(pol)
            if keys <= {'preset', 'groups'}:
                d = {}
                if pol.get('preset'):
                    if not sec_ok(pol['preset']):
                        return None
                    d['preset'] = pol['preset']
                elif 'preset' in pol and pol['preset'] not in ({}, None):
                    return None
                if pol.get('groups'):
                    if not isinstance(pol['groups'], dict):
                        return None
                    for g, s in pol['groups'].items():
                        if not sec_ok(s):
                            return None
                    d['groups'] = pol['groups']
                elif 'groups' in pol and pol['groups'] not in ({}, None):
                    return None
                out[name] = d
            elif keys <= ots:
                if not sec_ok(pol):
                    return None
                out[name] = {'preset': pol}
            else:
                return None
        return out

    import signal
    saved_handlers = (signal.getsignal(signal.SIGINT),
                      signal.getsignal(signal.SIGTERM))
    if W is not None:
        monitor = W.monitor
    else:
        monitor = mon.PolicyDirectoryMonitor(root, store,
                                             live_monitoring=True)
    scan_no = [0]
    prev_owners = {}
    seen_mtime = {}   # file -> mtime the monitor has consumed

    def model_scan():
        """What a scan must do, given the files as they are now."""
        scan_no[0] += 1
        present = set(f for f in FILES if os.path.exists(path(f)))
        for f in list(M.loads):
            if f not in present:
                M.removed(f)
        for f in list(seen_mtime):
            if f not in present:
                del seen_mtime[f]
        for f in sorted(present):
            mt = os.path.getmtime(path(f))
            if mt > seen_mtime.get(f, 0):
                seen_mtime[f] = mt
                with open(path(f), encoding='utf-8', errors='surrogateescape') as fh:
                    text = fh.read()
                defs = good_defs(text)
                if defs is None:
                    probes['invalid_file_rejected'] += 1
                    continue
                defs = dict((n, json.dumps(d, sort_keys=True))
                            for n, d in defs.items()
                            if n not in ('default', 'public'))
                M.loaded(f, defs, scan_no[0])

    def check_store(why):
        exp = M.expected()
        for k in ('default', 'public'):
            if k not in store or canon(store[k]) != canon(builtin[k]):
                flag('built-in-policy-changed', why=k)
        got = dict((k, canon(v)) for k, v in store.items()
                   if k not in ('default', 'public'))
        for name in set(exp) | set(got):
            if name not in got:
                flag('policy-missing', why=why, name=name,
                     acceptable=exp[name][:2])
            elif name not in exp:
                flag('policy-in-force-that-no-file-defines', why=why,
                     name=name)
            elif got[name] not in exp[name]:
                flag('policy-not-from-most-recent-load', why=why, name=name)
            elif len(exp[name]) > 1:
                probes['same_scan_conflict'] += 1
        owners = {}
        for f, (seq, d, sc) in M.loads.items():
            for n in d:
                owners.setdefault(n, set()).add(f)
        for n, prev in prev_owners.items():
            now = owners.get(n, set())
            if len(prev) > 1 and now and len(now) < len(prev):
                gone = prev - now
                if any(not os.path.exists(path(f)) for f in gone):
                    probes['restored_after_removal'] += 1
                else:
                    probes['undefined_by_edit'] += 1
        prev_owners.clear()
        prev_owners.update(owners)
        if W is not None:
            check_in_force(exp, why)
        return any(len(v) > 1 for v in owners.values())

    def check_in_force(exp, why):
        """The engine must decide as the definition in force says: Get of
        alice's key under policy <name> by alice (owner) and by bob."""
        for nm in NAMES:
            defs = exp.get(nm)
            want = None
            if defs is None:
                want = (False, False)
            elif len(set(defs)) == 1:
                d = json.loads(defs[0])
                perm = ((d.get('preset') or {}).get('SYMMETRIC_KEY')
                        or {}).get('GET')
                want = (perm in ('ALLOW_ALL', 'ALLOW_OWNER'),
                        perm == 'ALLOW_ALL')
            if want is None:
                continue
            for ai in (0, 1):
                resp = W.request({'actor': ai, 'ver': [1, 2], 'items': [
                    {'op': 'Get', 'uid': '@obj-' + nm}]}, record=False)
                probes['in_force_probes'] += 1
                ok = resp is not None and resp.items and \
                    resp.items[0]['status'] == 0
                if ok != want[ai]:
                    flag('engine-decides-by-another-definition-than-the-'
                         'one-in-force', why=why, name=nm,
                         requester=['owner', 'other'][ai], granted=ok,
                         definition_in_force=None if defs is None
                         else defs[0][:300])

    try:
        shadow = False
        removal = False
        if plan['mode'] == 'step':
            for e in plan['events']:
                k = e['ev']
                if k == 'write':
                    text = json.dumps(e['doc'])
                    if any(n in ('default', 'public') for n in e['doc']):
                        probes['reserved_name_in_file'] += 1
                    if any(v == {} for v in e['doc'].values()):
                        probes['empty_policy'] += 1
                    if e.get('fault') == 'torn':
                        # a prefix is visible for one scan, then the rest
                        write_file(e['file'], text[:max(1, len(text) // 2)])
                        faults['torn_write'] += 1
                        probes['torn_write'] += 1
                        clock.advance(1)
                        do_scan(monitor, fos, None, flag)
                        model_scan()
                        check_store('after-torn-write')
                        clock.advance(1)
                    tie = e.get('fault') == 'mtime_tie'
                    if tie:
                        faults['mtime_tie'] += 1
                        probes['mtime_tie'] += 1
                    write_file(e['file'], text, tie=tie)
                    clock.advance(1)
                elif k == 'invalid':
                    tie = e.get('fault') == 'mtime_tie'
                    write_file(e['file'], invalid_text(e['kind'], e['doc'], e.get('pos', 0)),
                               tie=tie)
                    clock.advance(1)
                elif k == 'remove':
                    if os.path.exists(path(e['file'])):
                        os.remove(path(e['file']))
                        removal = True
                    mtimes.pop(e['file'], None)
                elif k == 'touch':
                    if os.path.exists(path(e['file'])):
                        mtimes[e['file']] = clock.now
                        os.utime(path(e['file']), (clock.now, clock.now))
                        clock.advance(1)
                elif k == 'clock':
                    if e['dt'] < 0:
                        faults['jump_back'] += 1
                    clock.advance(e['dt'])
                elif k == 'monitor_restart':
                    faults['monitor_restart'] += 1
                    probes['monitor_restart'] += 1
                    if W is not None:
                        # a whole server restart: new store, new monitor,
                        # new engine on the same database and directory
                        W.restart()
                        store = W.policies
                        monitor = W.monitor
                    else:
                        monitor = mon.PolicyDirectoryMonitor(
                            root, store, live_monitoring=True)
                    M.loads.clear()
                    seen_mtime.clear()
                elif k == 'scan':
                    vf = None
                    if e.get('fault', '').startswith('vanish') and \
                            os.path.exists(path(e['file'])):
                        vf = e['file']
                        faults['vanish_race'] += 1
                        probes['vanish_race'] += 1
                    ok = do_scan(monitor, fos, vf, flag)
                    if vf is not None:
                        mtimes.pop(vf, None)
                        if not ok:
                            # the interrupted scan may have stopped early;
                            # the next one must converge
                            do_scan(monitor, fos, None, flag)
                    model_scan()
                    if check_store('after-scan'):
                        shadow = True
                        probes['shadowed_name'] += 1
                    trace.append(sorted((k2, canon(v)) for k2, v in
                                        store.items()))
        else:
            # live mode: the real run() loop in a scheduler task
            from sim import sched
            probes['live_mode'] += 1
            S = sched.Scheduler([], [], clock=clock, step_cap=3000000)
            clock.sleeper = S.sleep
            halted = [False]

            def driver():
                for e in plan['events']:
                    k = e['ev']
                    if k == 'write':
                        write_file(e['file'], json.dumps(e['doc']))
                    elif k == 'invalid':
                        write_file(e['file'], invalid_text(e['kind'], e['doc'],
                                                e.get('pos', 0)))
                    elif k == 'remove':
                        if os.path.exists(path(e['file'])):
                            os.remove(path(e['file']))
                    elif k == 'touch':
                        if os.path.exists(path(e['file'])):
                            os.utime(path(e['file']), (clock.now, clock.now))
                    # the monitor scans once per simulated second, so it
                    # sees this event in a scan of its own before the next
                    model_scan()
                    S.sleep(1.5)
                S.sleep(2.0)
                monitor.halt_trigger.set()

            def live():
                monitor.run()
            S.spawn('monitor', live)
            S.spawn('driver', driver)
            S.run(120)
            clock.sleeper = None
            if S.aborted:
                flag('monitor-loop-stuck', why=S.aborted.split(':')[0])
            errs = [t.error for t in S.tasks if t.error]
            if errs:
                flag('monitor-loop-died', why=errs[0].strip().splitlines()
                     [-1].split(':')[0], error=errs[0][-800:])
            # bounded liveness: 2 simulated seconds after the last event
            # the store equals the model
            check_store('live')
            got = dict((k2, canon(v)) for k2, v in store.items()
                       if k2 not in ('default', 'public'))
            trace.append(sorted(got.items()))
        nontrivial = shadow and removal
        digest = kernel.digest_of([plan['events'], trace])
        return {
            'violations': viol, 'nontrivial': nontrivial or
            plan['mode'] == 'live', 'key': digest, 'digest': digest,
            'faults': faults, 'probes': probes,
            'states': [kernel.digest_of(t_) for t_ in trace],
            'sim_s': clock.covered(), 'steps': len(plan['events']),
            'sample': [(e['ev'], e.get('file'), sorted(e.get('doc', {}))
                        if e['ev'] in ('write', 'invalid') else None,
                        e.get('fault')) for e in plan['events']][:10],
        }
    finally:
        # the monitor's constructor installs SIGINT/SIGTERM handlers
        signal.signal(signal.SIGINT, saved_handlers[0])
        signal.signal(signal.SIGTERM, saved_handlers[1])
        mon.os = real_os
        kernel.TIME.clock.sleeper = None
        if W is not None:
            W.close()
        shutil.rmtree(root, ignore_errors=True)


KNOWN_OPS = None


def _init_ops():
    """Operation names of the KMIP specification (independent list)."""
    global KNOWN_OPS
    from sim import ttlv_ref as t
    import re
    KNOWN_OPS = set(re.sub(r'(?<!^)(?=[A-Z])', '_', n).upper()
                    for n in t.OPERATION.values())
    KNOWN_OPS |= {'MAC', 'MAC_VERIFY', 'RNG_RETRIEVE', 'RNG_SEED',
                  'PKCS_11', 'REKEY_KEY_PAIR'}


_init_ops()


def do_scan(monitor, fos, vanish_file, flag):
    fos.vanish_before_stat = vanish_file
    try:
        monitor.scan_policies()
        return True
    except Exception as e:
        if vanish_file is not None and isinstance(e, OSError):
            # a file disappearing between listdir and getmtime: the
            # relaxed oracle only asks that the next scan converges
            return False
        flag('scan-raised', why=type(e).__name__,
             error='%s: %s' % (type(e).__name__, e))
        return False
    finally:
        fos.vanish_before_stat = None


def final_scan_model(M, path, good_defs, files):
    """Model of a monitor that has seen only the final directory: every
    existing file loaded once, in one scan."""
    for f in sorted(files):
        if os.path.exists(path(f)):
            with open(path(f), encoding='utf-8', errors='surrogateescape') as fh:
                defs = good_defs(fh.read())
            if defs is None:
                continue
            defs = dict((n, json.dumps(d, sort_keys=True))
                        for n, d in defs.items()
                        if n not in ('default', 'public'))
            M.loaded(f, defs, 1)


SHRINK_LISTS = ['events']
