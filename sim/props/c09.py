"""
C09 — crash consistency. The server process is killed immediately before
the k-th file-changing libc call of a state-changing request, for EVERY k of
that request (1..N+1), then a fresh engine is opened on the surviving file.

Oracle: fault-free twin runs of the same code give the store before (absent)
and after (present) the request - and after each item prefix for batches.
The recovered store must equal one of them (the present one if the response
had been reported), must pass integrity/row-completeness checks, must be
listable through the API by every identity, and the suffix requests must
then behave exactly as in the corresponding twin.
"""
import copy
import os
import shutil

from sim import crash, gen, kernel, observe, world

ID = 'C09'
LEVEL = 'fault_enumeration'
NEEDS_SHIM = True
COUNT = {'quick': 48, 'thorough': 1500}
BUDGET_S = {'quick': 70, 'thorough': 840}
DETERMINISM = {'quick': 6, 'thorough': 40}
CHUNK = 1
SHRINK_LISTS = ['prefix', 'suffix']
RULE = ('scenario = seeded prefix history building a store, one target '
        'state-changing request (Create, CreateKeyPair, Register of each '
        'type, DeriveKey, Activate, Revoke, Destroy, Set/Modify/Delete'
        'Attribute, 2-3 item batches, or first start-up), 2 suffix '
        'requests. For each scenario ALL crash points k=1..N+1 (N = number '
        'of intercepted pwrite/fdatasync/unlink/... calls of the target) are '
        'executed with process death, plus ENOSPC/EIO at sampled (quick) or '
        'all (thorough) k, plus a second kill during recovery. evaluations '
        'counts individual fault runs. Non-trivial = the kill landed inside '
        'the target call range and recovery found a hot journal; distinct '
        'by (scenario digest, k, mode).')
PROBES = ['io_error_mixed_batch', 'hot_journal_rolled_back', 'killed_after_commit_before_ack',
          'batch_prefix_state_observed', 'io_error_reported_failure',
          'double_crash', 'startup_crash', 'keypair_target',
          'destroy_target', 'attribute_target']
EXHAUSTIVE = {'quick': False, 'thorough': False}
REAL_VS_STUB = {
    'real': ['KmipEngine', 'KmipSession', 'SQLAlchemy', 'SQLite (C library, '
             'rollback-journal mode, real files on tmpfs)'],
    'stub': ['libc pwrite/write/fsync/fdatasync/ftruncate/unlink/rename on '
             'the database and journal -> LD_PRELOAD shim (counts, kills the '
             'process before call k, or fails call k)', 'TLS socket, clock, '
             'entropy, RSA pool as in the inline world'],
}
ASSUMPTIONS = [
    'process death only: every completed write() survives (no power loss, '
    'no torn or lost sector writes)',
    'two kill instants between the same two intercepted calls are '
    'indistinguishable on disk, so enumerating k covers every instant',
    'the response counts as reported once the session has handed it to '
    'sendall (recorded through the ack pipe)',
]

TARGETS = ['Create', 'CreateKeyPair', 'RegSymmetricKey', 'RegPublicKey',
           'RegPrivateKey', 'RegSplitKey', 'RegCertificate', 'RegSecretData',
           'RegOpaqueData', 'DeriveKey', 'Activate', 'Revoke', 'Destroy',
           'ModifyAttribute', 'DeleteAttribute', 'SetAttribute', 'Batch',
           'Startup']


def _mk_target(ctx, r, kind, actor):
    ver = r.choice([(1, 0), (1, 2), (1, 4), (2, 0)])
    if kind == 'SetAttribute':
        ver = (2, 0)
    items = None
    if kind == 'Create':
        items = [gen.gen_create(ctx, ver, actor)]
    elif kind == 'CreateKeyPair':
        items = [gen.gen_keypair(ctx, ver, actor)]
    elif kind.startswith('Reg'):
        items = [gen.gen_register(ctx, ver, actor, kind[3:])]
    elif kind == 'DeriveKey':
        base = [o for o in ctx.objs if o['otype'] == 'SymmetricKey'
                and o['mask'] & 0x200]
        op = gen.gen_derive(ctx, ver, actor)
        if base:
            op['uids'] = ['@' + base[0]['label']]
        op['attrs'] = [a for a in op['attrs']
                       if a['n'] != 'Cryptographic Length'] + \
            [gen.A('Cryptographic Length', 128)]
        items = [op]
    elif kind in ('Activate', 'Revoke', 'Destroy'):
        o = ctx.pick_obj(['SymmetricKey', 'PrivateKey', 'PublicKey',
                          'SecretData', 'Certificate', 'SplitKey'], 0)
        op = {'op': kind, 'uid': ctx.ref(o)}
        if kind == 'Revoke':
            op['code'] = 2
        items = [op]
    elif kind in ('ModifyAttribute', 'DeleteAttribute', 'SetAttribute'):
        o = ctx.pick_obj(None, 0)
        ref = ctx.ref(o)
        if kind == 'SetAttribute':
            items = [{'op': kind, 'uid': ref,
                      'new': gen.A('Sensitive', True)}]
        elif kind == 'ModifyAttribute':
            if ver >= (2, 0):
                items = [{'op': kind, 'uid': ref,
                          'cur': gen.A('Name', ['tname', 1]),
                          'new': gen.A('Name', ['tname-new', 1])}]
            else:
                items = [{'op': kind, 'uid': ref,
                          'attr': gen.A('Name', ['tname-new', 1], 0)}]
        else:
            which = r.choice(['Name', 'Object Group',
                              'Application Specific Information'])
            if ver >= (2, 0):
                items = [{'op': kind, 'uid': ref, 'ref': which}]
            else:
                items = [{'op': kind, 'uid': ref, 'name': which,
                          'index': 0}]
    elif kind == 'Batch':
        n = r.choice([2, 2, 3])
        items = []
        for _ in range(n):
            k2 = r.choice(['Create', 'RegSecretData', 'Activate', 'Destroy',
                           'RegSymmetricKey', 'CreateKeyPair'])
            items.extend(_mk_target(ctx, r, k2, actor)['items'])
        req = {'actor': actor, 'ver': list(ver), 'items': items,
               'cont': r.choice([1, 2])}
        return req
    return {'actor': actor, 'ver': list(ver), 'items': items}


def generate(rng, tier, index):
    r = rng
    nact = r.choice([1, 2])
    actors = [{'cn': 'user%d' % i} for i in range(nact)]
    ctx = gen.Ctx(r, nactors=nact)
    kind = TARGETS[index % len(TARGETS)] if r.random() < 0.7 else \
        r.choice(TARGETS)
    prefix = []
    if kind != 'Startup':
        # a store with named / grouped objects of mixed types, some active
        n = r.choice([1, 2, 3, 4, 6])
        for i in range(n):
            a = r.randrange(nact)
            ver = r.choice([(1, 2), (1, 4), (2, 0)])
            x = r.random()
            if x < 0.45:
                op = gen.gen_create(ctx, ver, a, want_mask=0x200 | 12)
            elif x < 0.9:
                op = gen.gen_register(ctx, ver, a)
            else:
                op = gen.gen_keypair(ctx, ver, a)
            if i == 0:
                # make sure attribute targets have something to work on
                op['attrs'] = [x_ for x_ in op.get('attrs', []) if x_['n'] not
                               in ('Name', 'Object Group',
                                   'Application Specific Information')]
                if op['op'] != 'CreateKeyPair':
                    op['attrs'] += [
                        gen.A('Name', ['tname', 1], 0),
                        gen.A('Name', ['tname2', 1], 1),
                        gen.A('Object Group', 'g1', 0),
                        gen.A('Application Specific Information',
                              ['ns', 'd'], 0)]
            prefix.append({'actor': a, 'ver': list(ver), 'items': [op]})
            if r.random() < 0.4 and ctx.objs:
                o = ctx.objs[-1]
                prefix.append({'actor': a, 'ver': [1, 2], 'items': [
                    {'op': 'Activate', 'uid': '@' + o['label']}]})
                o['state'] = 'Active'
    actor = r.randrange(nact)
    if kind in ('Activate', 'Revoke', 'Destroy', 'ModifyAttribute',
                'DeleteAttribute', 'SetAttribute') and ctx.objs:
        # target the first object (owned by its creator)
        first = ctx.objs[0]
        actor = first['owner']
        saved = ctx.objs
        ctx.objs = [first] if r.random() < 0.7 else saved
        target = _mk_target(ctx, r, kind, actor)
        ctx.objs = saved
    elif kind == 'Startup':
        target = 'startup'
    else:
        target = _mk_target(ctx, r, kind, actor)
    suffix = []
    for _ in range(2):
        a = r.randrange(nact)
        x = r.random()
        ver = r.choice([(1, 2), (2, 0)])
        if x < 0.5:
            suffix.append({'actor': a, 'ver': list(ver),
                           'items': [gen.gen_create(ctx, ver, a)]})
        else:
            suffix.append({'actor': a, 'ver': list(ver),
                           'items': [{'op': 'Locate', 'attrs': []}]})
    return {'actors': actors, 'seed': r.randrange(1 << 30), 'kind': kind,
            'prefix': prefix, 'target': target, 'suffix': suffix,
            'faults': 'all' if tier == 'thorough' else 'kills+sample',
            'sample_seed': r.randrange(1 << 30)}


# ---------------------------------------------------------------------------
class Scenario(object):
    def __init__(self, plan):
        self.plan = plan
        self.root = os.path.join(kernel.scratch_root(),
                                 'pykmip-verif-%d' % os.getpid(),
                                 'c09-%d' % id(self))
        os.makedirs(self.root, exist_ok=True)
        self.n = 0

    def newdir(self, src=None):
        self.n += 1
        d = os.path.join(self.root, 'r%d' % self.n)
        os.makedirs(d)
        if src is not None:
            shutil.copy(src, os.path.join(d, 'kmip.db'))
        return d

    def open(self, d, kstate, labels):
        w = world.World(self.plan['actors'], None, workdir=d, reset=False)
        restore(kstate)
        w.clock, w.rng = kernel.TIME.clock, kernel.OS.rng
        w.labels = dict(labels)
        return w

    def close(self):
        shutil.rmtree(self.root, ignore_errors=True)


def snapshot_kernel():
    return (kernel.TIME.clock.now, kernel.OS.rng.r.getstate(),
            kernel.OS.rng.rsa_counter)


def restore(kstate):
    kernel.TIME.clock = kernel.SimClock(kstate[0])
    kernel.OS.rng = kernel.SimRng(0)
    kernel.OS.rng.r.setstate(kstate[1])
    kernel.OS.rng.rsa_counter = kstate[2]


def world_jsonable(o):
    import json
    return json.loads(json.dumps(o, default=kernel._json_default))


def run_requests(w, reqs_):
    out = []
    for rq in reqs_:
        resp = w.request(copy.deepcopy(rq), record=False)
        out.append(None if resp is None else resp.plain())
        w.clock.advance(1)
    return out


def execute(plan):
    sh = crash.shim()
    sh.reset()
    probes = dict((p, 0) for p in PROBES)
    faults = {'crash': 0, 'enospc': 0, 'eio': 0, 'crash_during_recovery': 0}
    viol = []
    keys = set()
    sc = Scenario(plan)
    evals = 0
    trace = []
    try:
        kernel.reset(None, plan['seed'])
        target = plan['target']
        startup = (target == 'startup')
        # ---- prefix on the twin ------------------------------------
        d0 = sc.newdir()
        labels = {}
        if not startup:
            w = world.World(plan['actors'], None, workdir=d0, reset=False)
            for rq in plan['prefix']:
                resp = w.request(copy.deepcopy(rq))
                w.clock.advance(1)
            labels = dict(w.labels)
            trace.append(w.trace)
            w.close()
        base = os.path.join(d0, 'kmip.db')
        kstate = snapshot_kernel()

        def twin(items_upto=None, with_target=True):
            d = sc.newdir(None if startup else base)
            sh.reset()
            if startup:
                restore(kstate)
                sh.counting(True)
                w = world.World(plan['actors'], None, workdir=d, reset=False)
                n = sh.count()
                sh.reset()
                r_t = 'started'
            else:
                w = sc.open(d, kstate, labels)
                n = 0
                r_t = None
                if with_target:
                    rq = copy.deepcopy(target)
                    if items_upto is not None:
                        rq['items'] = rq['items'][:items_upto]
                        rq['ids'] = [('%02x' % (i + 1))
                                     for i in range(items_upto)]
                    sh.counting(True)
                    resp = w.request(rq, record=False)
                    n = sh.count()
                    sh.reset()
                    r_t = None if resp is None else resp.plain()
                    w.clock.advance(1)
            dump = w.dump()
            lab = dict(w.labels)
            ks = snapshot_kernel()
            api = observe.api(w, extra_uids=sorted(lab.values()))
            restore(ks)
            suffix = run_requests(w, plan['suffix'])
            w.close()
            J = world_jsonable
            return {'n': n, 'resp': J(r_t), 'dump': J(dump), 'labels': lab,
                    'kstate': ks, 'api': J(api), 'suffix': J(suffix),
                    'raw': crash.raw_check(os.path.join(d, 'kmip.db'))}

        present = twin()
        absent = None if startup else twin(with_target=False)
        states = [('present', present)]
        if absent is not None:
            states.insert(0, ('absent', absent))
        nitems = 1 if startup else len(target['items'])
        for j in range(1, nitems):
            states.insert(-1, ('prefix%d' % j, twin(items_upto=j)))
        for name, st in states:
            if st['raw']:
                viol.append({'sig': {'oracle': 'twin-state-incomplete',
                                     'kind': plan['kind']},
                             'detail': st['raw'][:5]})
        N = present['n']
        # ---- fault list --------------------------------------------
        fl = plan['faults']
        if fl in ('all', 'kills+sample'):
            flist = [[k, crash.KILL] for k in range(1, N + 2)]
            import random
            sr = random.Random(plan['sample_seed'])
            if N > 0:
                if fl == 'all':
                    flist += [[k, m] for k in range(1, N + 1)
                              for m in (crash.ENOSPC, crash.EIO)]
                    flist += [[k, crash.KILL, sr.randrange(1, 12)]
                              for k in sr.sample(range(1, N + 1),
                                                 min(N, 6))]
                else:
                    flist += [[sr.randrange(1, N + 1), sr.choice(
                        [crash.ENOSPC, crash.EIO])] for _ in range(4)]
                    flist += [[sr.randrange(1, N + 1), crash.KILL,
                               sr.randrange(1, 12)] for _ in range(2)]
        else:
            flist = fl
        if plan['kind'] == 'CreateKeyPair':
            probes['keypair_target'] += 1
        if plan['kind'] == 'Destroy':
            probes['destroy_target'] += 1
        if plan['kind'] in ('ModifyAttribute', 'DeleteAttribute',
                            'SetAttribute'):
            probes['attribute_target'] += 1
        # ---- one run per fault --------------------------------------
        cannot_open = [0]
        for f in flist:
            k, mode = f[0], f[1]
            k2 = f[2] if len(f) > 2 else None
            evals += 1
            d = sc.newdir(None if startup else base)
            dbp = os.path.join(d, 'kmip.db')

            def child(report, d=d, k=k, mode=mode):
                if startup:
                    restore(kstate)
                    sh.arm(k, mode)
                    w = world.World(plan['actors'], None, workdir=d,
                                    reset=False)
                    sh.reset()
                    report({'ack': 'started'})
                else:
                    w = sc.open(d, kstate, labels)
                    sh.arm(k, mode)
                    if mode == crash.KILL and k == N + 1:
                        # die after the last file operation of the request
                        # but before the response leaves the server
                        conn = w.session(target['actor'])[1]
                        conn.sendall = lambda data: os._exit(137)
                    resp = w.request(copy.deepcopy(target), record=False)
                    fired = sh.fired()
                    sh.reset()
                    report({'ack': None if resp is None else resp.plain(),
                            'fired': fired, 'labels': w.labels})
                    w.clock.advance(1)
                if mode != crash.KILL:
                    # the child lives on: what does the store look like to
                    # a second connection, and does the engine keep serving?
                    report({'dump': w.dump()})
                    report({'suffix': run_requests(w, plan['suffix'])})
                w.stop_engine()

            recs, code = crash.run_child(child)
            errs = [x for x in recs if 'child_error' in x]
            if errs:
                if startup and mode != crash.KILL:
                    # engine construction failing under a disk error at
                    # start-up is a legitimate refusal to start
                    faults[crash.MODE_NAME[mode]] += 1
                    continue
                raise RuntimeError('child failed: ' + errs[0]['child_error'])
            ack = next((x for x in recs if 'ack' in x), None)
            killed = (code == 137)
            faults[crash.MODE_NAME[mode]] += int(
                killed or bool(ack and ack.get('fired')) or
                (startup and mode != crash.KILL))
            hot = os.path.exists(dbp + '-journal')
            if killed and hot:
                probes['hot_journal_rolled_back'] += 1
            if killed and k == N + 1:
                pass
            if mode == crash.KILL and not killed and k <= N:
                viol.append({'sig': {'oracle': 'harness-kill-did-not-fire'},
                             'detail': {'k': k, 'N': N, 'code': code}})
                continue
            if k2 is not None and killed:
                # second kill, during recovery
                def child2(report, d=d, k2=k2):
                    restore(present['kstate'])
                    sh.arm(k2, crash.KILL)
                    w = world.World(plan['actors'], None, workdir=d,
                                    reset=False)
                    w.request({'actor': 0, 'ver': [1, 2], 'items': [
                        {'op': 'Locate', 'attrs': []}]}, record=False)
                    sh.reset()
                    w.stop_engine()
                _, code2 = crash.run_child(child2)
                if code2 == 137:
                    faults['crash_during_recovery'] += 1
                    probes['double_crash'] += 1
            if startup and killed:
                probes['startup_crash'] += 1
            # ---- recovery: fresh engine on the surviving file --------
            sig_base = {'kind': plan['kind'], 'mode': crash.MODE_NAME[mode]}
            detail_base = {'k': k, 'N': N, 'k2': k2, 'killed': killed}
            rp = dict(plan)
            rp['faults'] = [f]

            def flag(oracle, **det):
                s = dict(sig_base)
                s['oracle'] = oracle
                dd = dict(detail_base)
                dd.update(det)
                viol.append({'sig': s, 'detail': dd, 'plan': rp})

            # the restarted server is the FIRST thing to touch the surviving
            # file (a hot journal is still there for it to deal with); the
            # harness reads the tables itself only afterwards
            try:
                restore(present['kstate'])
                w = world.World(plan['actors'], None, workdir=d, reset=False)
            except Exception as e:
                flag('engine-cannot-open', error=repr(e)[:300])
                cannot_open[0] += 1
                if cannot_open[0] >= 2:
                    # a store that cannot be opened after a crash (it may
                    # take a lock timeout each time to find out): the
                    # remaining crash points of this scenario add nothing
                    break
                continue
            raw = []
            try:
                raw = crash.raw_check(dbp)
            except Exception as e:
                flag('store-unreadable', error=repr(e))
                w.close()
                continue
            if raw:
                flag('raw-tables-inconsistent', problems=raw[:5])
            try:
                dump = world_jsonable(w.dump())
                if mode != crash.KILL:
                    cd = next((x['dump'] for x in recs if 'dump' in x), None)
                    if cd is None:
                        flag('no-store-report-after-io-error')
                        continue
                    dump = cd
                match = [name for name, st in states if st['dump'] == dump]
                acked_ok = ack is not None and ack['ack'] is not None and (
                    startup or all(i['status'] == 0
                                   for i in ack['ack']['items']))
                if not match and mode != crash.KILL and nitems > 1 and \
                        ack is not None and ack['ack'] is not None:
                    sts = [i['status'] for i in ack['ack']['items']]
                    if any(s == 0 for s in sts) and any(s != 0
                                                        for s in sts):
                        # Continue batch hit by a disk error: some items
                        # failed (and left nothing), later ones succeeded.
                        # The result is no item-prefix state; integrity and
                        # row completeness were checked above.
                        probes['io_error_mixed_batch'] += 1
                        continue
                if not match:
                    flag('store-is-neither-before-nor-after',
                         tables_differing=sorted(
                             tb for tb in set(dump) | set(present['dump'])
                             if dump.get(tb) != present['dump'].get(tb) and
                             (absent is None or
                              dump.get(tb) != absent['dump'].get(tb))))
                    continue
                if any(m.startswith('prefix') for m in match) and \
                        'present' not in match and 'absent' not in match:
                    probes['batch_prefix_state_observed'] += 1
                if mode == crash.KILL:
                    if killed and k == N + 1 and 'present' in match:
                        probes['killed_after_commit_before_ack'] += 1
                    if ack is not None and 'present' not in match:
                        flag('acknowledged-operation-lost', matched=match)
                        continue
                else:
                    # I/O error: what was reported decides
                    if ack is None or ack['ack'] is None:
                        flag('no-response-after-io-error')
                        continue
                    if startup:
                        pass
                    elif nitems == 1:
                        ok = ack['ack']['items'] and \
                            ack['ack']['items'][0]['status'] == 0
                        tw_ok = present['resp']['items'][0]['status'] == 0
                        if not ok:
                            probes['io_error_reported_failure'] += 1
                        if ok and 'present' not in match:
                            flag('reported-success-not-in-effect',
                                 matched=match)
                            continue
                        if (not ok) and tw_ok and 'absent' not in match \
                                and present['dump'] != absent['dump']:
                            flag('reported-failure-left-effects',
                                 matched=match, ack=ack['ack'])
                            continue
                st = dict(states)[match[-1] if 'present' in match
                                  else match[0]]
                if mode != crash.KILL:
                    # live engine after the I/O error served the suffix
                    suf = next((x['suffix'] for x in recs if 'suffix' in x),
                               None)
                    if suf != st['suffix']:
                        flag('engine-does-not-recover-after-io-error',
                             matched=match, got=suf, want=st['suffix'])
                    continue
                # API view by every identity must equal the twin's view of
                # the matched state
                ks = snapshot_kernel()
                restore(st['kstate'])
                api = world_jsonable(observe.api(
                    w, extra_uids=sorted(st['labels'].values())))
                if api != st['api']:
                    flag('api-view-differs-from-twin', matched=match)
                    continue
                # suffix behaves as in the twin of the matched state
                restore(st['kstate'])
                w.labels = dict(st['labels'])
                suf = world_jsonable(run_requests(w, plan['suffix']))
                if suf != st['suffix']:
                    flag('suffix-differs-from-twin', matched=match,
                         got=suf, want=st['suffix'])
                    continue
                if killed and hot and 1 <= k <= N:
                    keys.add((k, mode))
            finally:
                w.close()
                shutil.rmtree(d, ignore_errors=True)
        digest = kernel.digest_of([trace, N, [s['dump'] for _, s in states],
                                   present['resp'], present['suffix']])
        res = {
            'violations': viol, 'nontrivial': bool(keys),
            'key': digest, 'digest': digest, 'faults': faults,
            'probes': probes, 'states': [kernel.digest_of(s['dump'])
                                         for _, s in states],
            'sim_s': 0.0, 'steps': evals,
            'evals': evals,
            'nt_keys': ['%s/%d/%d' % (digest, a, b) for a, b in sorted(keys)],
            'sample': {'kind': plan['kind'], 'N': N,
                       'target': target if startup else
                       [o['op'] for o in target['items']],
                       'prefix': [[o['op'] for o in s['items']]
                                  for s in plan['prefix']],
                       'faults_run': len(flist)},
        }
        return res
    finally:
        sh.reset()
        sc.close()
