"""
C07 — unique identifiers are never reused; a destroyed identifier stays
dead. Histories of creating and destroying operations by 2-3 clients with
clean restarts and kill-restarts (process death before the k-th
file-changing call of a request, via the crash world) at arbitrary points.
"""
import copy
import os

from sim import crash, gen, kernel, model, observe, world
from sim.props import c09

ID = 'C07'
LEVEL = 'exploration'
NEEDS_SHIM = True
COUNT = {'quick': 900, 'thorough': 20000}
BUDGET_S = {'quick': 80, 'thorough': 840}
DETERMINISM = {'quick': 16, 'thorough': 100}
CHUNK = 8
RULE = ('plan = history of 5-16 steps by 2-3 clients over Create / '
        'CreateKeyPair / Register / DeriveKey / Destroy (biased to "destroy '
        'the newest then create" and "destroy everything then create"), '
        'operations on dead identifiers by every identity, clean restarts, '
        'and kill-restarts: the request runs in a forked server that is '
        'killed before its k-th file-changing libc call (k seeded). '
        'Non-trivial: at least one destroy followed by a create with a '
        'restart in between. Distinct = digest of the trace.')
PROBES = ['identifier_claimed_in_template', 'identifier_alias', 'disk_error_inside_request', 'destroy_then_create', 'destroy_newest_then_create',
          'restart_between_destroy_and_create', 'kill_restart',
          'kill_hit_inside_request', 'created_but_unacknowledged',
          'destroyed_but_unacknowledged', 'op_on_dead_id', 'all_destroyed']
REAL_VS_STUB = {
    'real': ['KmipEngine', 'KmipSession', 'SQLAlchemy', 'SQLite incl. '
             'AUTOINCREMENT / sqlite_sequence and journal recovery'],
    'stub': ['libc file calls under SQLite -> LD_PRELOAD shim (kill)',
             'TLS/clock/entropy/RSA pool'],
}
ASSUMPTIONS = ['process death only (no power loss)',
               'an identifier counts as issued if it was returned in a '
               'response or is found in the store after recovery']

DEAD_OPS = ['Get', 'GetAttributes', 'GetAttributeList', 'Activate',
            'Revoke', 'Destroy', 'ModifyAttribute', 'DeleteAttribute',
            'Encrypt', 'MAC', 'DeriveKey', 'GetWrapped']


ALIAS_FORMS = ['zero', 'plus', 'lead_blank', 'trail_blank', 'float',
               'underscore', 'fullwidth', 'arabic', 'nbsp', 'exp']


def spell(uid, form):
    """Another spelling of a decimal identifier."""
    if not uid.isdigit():
        return uid
    if form == 'zero':
        return '0' + uid
    if form == 'plus':
        return '+' + uid
    if form == 'lead_blank':
        return ' ' + uid
    if form == 'trail_blank':
        return uid + ' '
    if form == 'float':
        return uid + '.0'
    if form == 'exp':
        return uid + 'e0'
    if form == 'underscore':
        return uid[0] + '_' + uid[1:] if len(uid) > 1 else '0_' + uid
    if form == 'fullwidth':
        return ''.join(chr(0xFF10 + int(ch)) for ch in uid)
    if form == 'arabic':
        return ''.join(chr(0x0660 + int(ch)) for ch in uid)
    if form == 'nbsp':
        return uid + u'\u00a0'
    return uid


def generate(rng, tier, index):
    r = rng
    nact = r.choice([2, 2, 3])
    actors = [{'cn': 'user%d' % i} for i in range(nact)]
    ctx = gen.Ctx(r, nactors=nact)
    steps = []
    dead = []
    n = r.randint(5, 16)

    def creator(a):
        x = r.random()
        ver = r.choice([(1, 0), (1, 2), (1, 4), (2, 0)])
        if x < 0.45:
            op = gen.gen_create(ctx, ver, a, want_mask=0x200)
        elif x < 0.8:
            op = gen.gen_register(ctx, ver, a)
        elif x < 0.9:
            op = gen.gen_keypair(ctx, ver, a)
        else:
            op = gen.gen_derive(ctx, ver, a)
            base = [o for o in ctx.objs[:-1] if o['owner'] == a and
                    o['otype'] == 'SymmetricKey']
            if base:
                op['uids'] = ['@' + base[-1]['label']]
            op['attrs'] = [gen.A('Cryptographic Length', 128),
                           gen.A('Cryptographic Algorithm', 3),
                           gen.A('Cryptographic Usage Mask', 12)]
        if r.random() < 0.12 and (dead or len(ctx.objs) > 1):
            # the client asks for an identifier of its choosing (a template
            # attribute named Unique Identifier): a dead one, or one in use
            pool = dead if dead and r.random() < 0.7 else \
                (ctx.objs[:-1] or dead)
            if pool:
                op['claim'] = '@' + r.choice(pool)['label']
        rq = {'actor': a, 'ver': list(ver), 'items': [op]}
        y = r.random()
        if y < 0.3 and depth[0] == 0:
            # several items in one request: more creating items, items that
            # fail (before or after), under Stop or Continue - whatever a
            # response reports as created must exist and stay unique
            depth[0] = 1
            items = [op]
            for _ in range(r.choice([1, 1, 2])):
                z = r.random()
                if z < 0.45:
                    items.insert(r.randrange(len(items) + 1), r.choice([
                        {'op': 'Get', 'uid': '424242'},
                        {'op': 'Activate', 'uid': '424242'},
                        {'op': 'Destroy', 'uid': '0'},
                        {'op': 'GetAttributes', 'uid': 'nosuch'}]))
                else:
                    items.append(creator(a)['items'][0])
            depth[0] = 0
            rq['items'] = items
            rq['cont'] = r.choice([None, 1, 1, 2])
        return rq

    depth = [0]

    def destroy(o):
        ctx.objs.remove(o)
        dead.append(o)
        return {'actor': o['owner'], 'ver': [1, 2], 'items': [
            {'op': 'Destroy', 'uid': '@' + o['label']}]}

    def use_ops(ref, wref):
        return [
            {'op': 'Encrypt', 'uid': ref, 'data': '00' * 16,
             'cp': {'alg': 3, 'mode': 2, 'padding': 3}},
            {'op': 'Decrypt', 'uid': ref, 'data': '00' * 16,
             'cp': {'alg': 3, 'mode': 2, 'padding': 3}},
            {'op': 'MAC', 'uid': ref, 'data': '0102', 'cp': {'alg': 9}},
            {'op': 'Get', 'uid': wref, 'wrapspec': {
                'method': 1, 'enc': {'uid': ref, 'cp': {'mode': 0xD}},
                'encoding': 1}},
            {'op': 'DeriveKey', 'otype': 'SymmetricKey', 'uids': [ref],
             'method': 3, 'params': {'cp': {'hash': 6}, 'data': 'aabb'},
             'attrs': [gen.A('Cryptographic Length', 128),
                       gen.A('Cryptographic Algorithm', 3),
                       gen.A('Cryptographic Usage Mask', 12)]}]

    for i in range(n):
        a = r.randrange(nact)
        x = r.random()
        st = None
        if i >= 2 and x < 0.05 and len(steps) < 60:
            # a key that was USED while it lived, then revoked and
            # destroyed: the same uses by the same client must now fail as
            # not found, whatever the server kept from the earlier uses
            lab = ctx.label()
            mk = {'op': 'Register', 'label': lab, 'otype': 'SymmetricKey',
                  'attrs': [gen.A('Cryptographic Usage Mask',
                                  gen.ALL_MASK)],
                  'obj': {'kft': 1, 'value': ctx.rbytes(16), 'alg': 3,
                          'len': 128}}
            victim = {'op': 'Register', 'label': lab + 'v',
                      'otype': 'SymmetricKey',
                      'attrs': [gen.A('Cryptographic Usage Mask', 12)],
                      'obj': {'kft': 1, 'value': ctx.rbytes(16), 'alg': 3,
                              'len': 128}}
            gen.note(ctx, lab + 'v', 'SymmetricKey', a, 12)
            ref = '@' + lab
            uses = r.sample(use_ops(ref, '@' + lab + 'v'), r.choice([1, 2, 3]))
            for op in [mk, victim, {'op': 'Activate', 'uid': ref}] + uses:
                steps.append({'actor': a, 'ver': [1, 2], 'items': [op]})
            steps.append({'actor': a, 'ver': [1, 2], 'items': [
                {'op': 'Revoke', 'uid': ref, 'code': r.choice([1, 2])}]})
            steps.append({'actor': a, 'ver': [1, 2], 'items': [
                {'op': 'Destroy', 'uid': ref}]})
            for op in uses:
                steps.append({'actor': a, 'ver': [1, 2],
                              'items': [copy.deepcopy(op)], 'dead': True,
                              'dead_role': 'direct' if op.get('uid') == ref
                              else 'indirect'})
            continue
        if i < 2 or x < 0.28 or not ctx.objs:
            st = creator(a)
        elif x < 0.36:
            # lifecycle of a live object: a destroyed object may have been
            # active, deactivated or compromised before
            o = r.choice(ctx.objs)
            k = r.choice(['Activate', 'Activate', 'RevokeKC', 'RevokeKC',
                          'Revoke'])
            if k == 'Activate':
                st = {'actor': o['owner'], 'ver': [1, 2], 'items': [
                    {'op': 'Activate', 'uid': '@' + o['label']}]}
            else:
                st = {'actor': o['owner'], 'ver': [1, 2], 'items': [
                    {'op': 'Revoke', 'uid': '@' + o['label'],
                     'code': 2 if k == 'RevokeKC' else r.choice([1, 5])}]}
        elif x < 0.56:
            # destroy (the newest, usually) ...
            o = ctx.objs[-1] if r.random() < 0.6 else r.choice(ctx.objs)
            st = destroy(o)
            if r.random() < 0.18:
                # ... naming it by another spelling of its identifier
                # (leading zero, sign, blanks, digit separators, non-ASCII
                # digits): whichever object the server takes that to mean,
                # an answer of Success means THAT object is gone
                st['items'][0]['alias'] = r.choice(ALIAS_FORMS)
                if r.random() < 0.5:
                    # the generator cannot know whether the server accepts
                    # the spelling: keep the object in its books
                    pass
                ctx.objs.append(o)
                dead.remove(o)
        elif x < 0.61:
            # destroy everything
            for o in list(ctx.objs):
                steps.append(destroy(o))
            continue
        elif x < 0.70:
            steps.append({'restart': True})
            continue
        elif x < 0.84 and dead:
            d = r.choice(dead)
            name = r.choice(DEAD_OPS)
            ref = '@' + d['label']
            if name == 'GetWrapped':
                live = ctx.pick_obj(None, 0)
                op = {'op': 'Get', 'uid': ctx.ref(live), 'wrapspec': {
                    'method': 1, 'enc': {'uid': ref, 'cp': {'mode': 0xD}},
                    'encoding': 1}}
            elif name == 'DeriveKey':
                op = {'op': 'DeriveKey', 'otype': 'SymmetricKey',
                      'uids': [ref], 'method': 3,
                      'params': {'cp': {'hash': 6}, 'data': 'aabb'},
                      'attrs': [gen.A('Cryptographic Length', 128),
                                gen.A('Cryptographic Algorithm', 3),
                                gen.A('Cryptographic Usage Mask', 12)]}
            else:
                op = {'op': name, 'uid': ref}
                if name == 'Revoke':
                    op['code'] = 2
                elif name == 'Encrypt':
                    op.update({'cp': {'alg': 3, 'mode': 2, 'padding': 3},
                               'data': '00' * 16})
                elif name == 'MAC':
                    op.update({'cp': {'alg': 9}, 'data': '0102'})
                elif name == 'ModifyAttribute':
                    op['attr'] = gen.A('Name', ['zz', 1], 0)
                elif name == 'DeleteAttribute':
                    op.update({'name': 'Name', 'index': 0})
            st = {'actor': a, 'ver': [1, 2], 'items': [op], 'dead': True,
                  'dead_role': 'indirect' if name in ('GetWrapped',
                                                      'DeriveKey')
                  else 'direct'}
        else:
            st = creator(a)
        if st is None:
            continue
        y = r.random()
        if y < 0.22 and not st.get('dead'):
            st = {'kill': st, 'k': r.choice([0, 0, 0, 1, 2, 3, 5, 8, 13, 21, 26,
                                             29, 30, 31, 34, 40, 55, 80])}
        elif y < 0.34 and not st.get('dead'):
            # the disk refuses one file-system call of this request (or
            # every call from there on): whatever the answer says must be
            # what the store holds afterwards
            st = dict(st)
            st['disk'] = [r.choice([1, 2, 3, 5, 8, 13, 21, 26, 29, 30, 31,
                                    34, 40]), r.choice([2, 3]),
                          r.random() < 0.3]
        steps.append(st)
    return {'actors': actors, 'seed': r.randrange(1 << 30), 'steps': steps}


def execute(plan):
    sh = crash.shim()
    sh.reset()
    probes = dict((p, 0) for p in PROBES)
    viol = []
    issued = set()
    dead = set()
    W = world.World(plan['actors'], None, seed=plan['seed'])
    trace = []
    destroyed_since_restart = False
    pending_destroy_then_restart = False
    last_destroyed_was_newest = False
    nontrivial = False

    def flag(oracle, **det):
        viol.append({'sig': {'oracle': oracle, 'op': det.get('op')},
                     'detail': det})

    def note_created(uids, how):
        for u in uids:
            if u in issued:
                flag('identifier-reused', uid=u, how=how,
                     was_dead=u in dead)
            issued.add(u)

    try:
        for si, st in enumerate(plan['steps']):
            if 'restart' in st:
                W.restart()
                if destroyed_since_restart:
                    pending_destroy_then_restart = True
                continue
            before = model.store_view(W.db)
            killed = False
            acked = None
            if 'kill' in st:
                rq = st['kill']
                probes['kill_restart'] += 1
                ks = c09.snapshot_kernel()
                labels = dict(W.labels)
                d = W.dir
                W.stop_engine()

                def child(report, rq=rq, k=st['k'], d=d, ks=ks,
                          labels=labels):
                    w = world.World(plan['actors'], None, workdir=d,
                                    reset=False)
                    c09.restore(ks)
                    w.clock, w.rng = kernel.TIME.clock, kernel.OS.rng
                    w.labels = dict(labels)
                    if k == 0:
                        # die after commit, before the response leaves
                        conn = w.session(rq['actor'])[1]
                        conn.sendall = lambda data: os._exit(137)
                    else:
                        sh.arm(k, crash.KILL)
                    resp = w.request(copy.deepcopy(rq), record=False)
                    sh.reset()
                    report({'resp': None if resp is None else resp.plain(),
                            'labels': w.labels})
                    w.stop_engine()

                recs, code = crash.run_child(child)
                errs = [x for x in recs if 'child_error' in x]
                if errs:
                    raise RuntimeError('child failed: ' +
                                       errs[0]['child_error'])
                killed = code == 137
                if killed:
                    probes['kill_hit_inside_request'] += 1
                acked = next((x for x in recs if 'resp' in x), None)
                # the child consumed entropy/clock; continue from a state
                # that does not depend on how far it got
                kernel.OS.rng = kernel.SimRng(plan['seed'] + si)
                W.rng = kernel.OS.rng
                W.start_engine()
                if acked is not None:
                    W.labels.update(acked['labels'])
                if destroyed_since_restart:
                    pending_destroy_then_restart = True
                items = [] if acked is None or acked['resp'] is None \
                    else acked['resp']['items']
            else:
                rq = copy.deepcopy(st)
                for op_ in rq['items']:
                    if op_.get('alias') and op_.get('uid', '').startswith(
                            '@'):
                        op_['alias_canon'] = W.resolve(op_['uid'])
                        op_['uid'] = spell(op_['alias_canon'], op_['alias'])
                        probes['identifier_alias'] += 1
                    if op_.get('claim'):
                        want = W.resolve(op_.pop('claim'))
                        key = 'private' if op_['op'] == 'CreateKeyPair' \
                            else 'attrs'
                        op_[key] = list(op_.get(key) or []) + [
                            gen.A('Unique Identifier', want)]
                        probes['identifier_claimed_in_template'] += 1
                disk = st.get('disk')
                if disk:
                    sh.arm(disk[0], disk[1], sticky=disk[2])
                resp = W.request(copy.deepcopy(dict(
                    (k_, v_) for k_, v_ in rq.items() if k_ != 'disk')))
                if disk:
                    if sh.fired():
                        probes['disk_error_inside_request'] += 1
                    sh.reset()
                items = [] if resp is None else resp.items
            W.clock.advance(1)
            after = model.store_view(W.db)
            new_ids = set(after) - set(before)
            gone = set(before) - set(after)
            # identifiers reported in responses
            reported = set()
            for op, it in zip(rq['items'], items):
                if it['status'] == 0 and op['op'] in (
                        'Create', 'Register', 'DeriveKey', 'CreateKeyPair'):
                    p = it['payload']
                    ids = p.get('uids') or [p.get('private_uid'),
                                            p.get('public_uid')]
                    reported.update(ids)
                    if pending_destroy_then_restart:
                        nontrivial = True
                        probes['restart_between_destroy_and_create'] += 1
                    if dead:
                        probes['destroy_then_create'] += 1
                    if last_destroyed_was_newest:
                        probes['destroy_newest_then_create'] += 1
                    last_destroyed_was_newest = False
                if op['op'] == 'Destroy' and it['status'] == 0:
                    uid = op.get('alias_canon') or W.resolve(op['uid'])
                    if uid not in gone:
                        flag('destroy-reported-but-object-still-stored',
                             uid=uid, op='Destroy')
                    others_b = dict((u, o) for u, o in before.items()
                                    if u != uid)
                    others_a = dict((u, o) for u, o in after.items()
                                    if u not in new_ids)
                    if others_a != others_b:
                        flag('destroy-affected-other-objects', uid=uid,
                             op='Destroy')
                    last_destroyed_was_newest = bool(before) and \
                        uid == max(before, key=int)
                    destroyed_since_restart = True
                role = None
                if op.get('uid') and W.resolve(op['uid']) in dead:
                    role = 'direct'
                if op['op'] == 'DeriveKey' and any(
                        W.resolve(u) in dead for u in op.get('uids', [])):
                    role = 'indirect'
                if op['op'] == 'Get' and op.get('wrapspec') and W.resolve(
                        op['wrapspec']['enc']['uid']) in dead and \
                        role is None:
                    role = 'indirect'
                if role is not None:
                    probes['op_on_dead_id'] += 1
                    if it['status'] == 0:
                        flag('operation-on-dead-identifier-succeeded',
                             op=op['op'])
                    elif role == 'direct' and \
                            it['reason_name'] != 'ItemNotFound':
                        flag('dead-identifier-not-reported-as-not-found',
                             op=op['op'], reason=it['reason_name'],
                             message=it['message'])
            if reported - new_ids:
                flag('reported-identifier-not-in-store',
                     ids=sorted(reported - new_ids))
            note_created(sorted(new_ids, key=int), 'store')
            if new_ids - reported:
                probes['created_but_unacknowledged'] += 1
            for u in gone:
                if not any(op['op'] == 'Destroy' and (
                        op.get('alias_canon') or W.resolve(op['uid'])) == u
                        for op in rq['items']):
                    flag('object-vanished-without-destroy', uid=u)
                dead.add(u)
                destroyed_since_restart = True
            if gone and 'kill' in st and acked is None:
                probes['destroyed_but_unacknowledged'] += 1
            if not after and dead:
                probes['all_destroyed'] += 1
            # ---- the dead stay dead, to everyone ----------------------
            if dead:
                api = observe.api(W, uids=sorted(after, key=int),
                                  extra_uids=sorted(dead, key=int))
                for ai, v in api.items():
                    if 'locate' not in v:
                        flag('observation-broken', detail=str(v)[:300])
                        continue
                    listed = v['locate'][1].get('uids', []) \
                        if v['locate'][0] == 'ok' else []
                    for u in dead:
                        if u in listed:
                            flag('locate-lists-dead-identifier', uid=u)
                        for what in ('attrs', 'get'):
                            r_ = v[u][what]
                            if r_[0] == 'ok':
                                flag('dead-identifier-readable', uid=u,
                                     op=what)
                            elif r_[1] != 'ItemNotFound':
                                flag('dead-identifier-not-reported-as-not-'
                                     'found', op=what, reason=r_[1])
            trace.append([sorted(after), sorted(dead), killed,
                          [(i['status'], i['reason']) for i in items]])
        digest = kernel.digest_of(trace)
        return {
            'violations': viol, 'nontrivial': nontrivial, 'key': digest,
            'digest': digest,
            'faults': {'restart_clean': W.restarts,
                       'crash': probes['kill_hit_inside_request'],
                       'enospc_eio': probes['disk_error_inside_request']},
            'probes': probes,
            'states': [kernel.digest_of(t[:2]) for t in trace],
            'sim_s': W.clock.covered(), 'steps': W.requests,
            'sample': [('kill@%d:' % s['k'] + s['kill']['items'][0]['op'])
                       if 'kill' in s else
                       ([o['op'] for o in s['items']] if 'items' in s
                        else 'restart') for s in plan['steps']],
        }
    finally:
        sh.reset()
        W.close()
