"""
C15 — attribute operations change only what they may, exactly as asked.

Sequences of SetAttribute / ModifyAttribute / DeleteAttribute in the KMIP
1.x index form and the 2.0 current/new/reference form over every attribute
name (modifiable, protected, unsupported, unknown), every index class and
every object type, interleaved with other operations and restarts.

Oracle: the stored rows of EVERY object before and after each call.
Successful call => after == apply(before, call) where `apply` changes
exactly the addressed instance; failed call => after == before; protected
attributes never change through these operations; GetAttributes then
reflects the stored rows.
"""
import copy

from sim import gen, kernel, model, world

ID = 'C15'
LEVEL = 'exploration'
COUNT = {'quick': 1600, 'thorough': 36000}
BUDGET_S = {'quick': 80, 'thorough': 840}
DETERMINISM = {'quick': 16, 'thorough': 100}
CHUNK = 8
RULE = ('plan = 2-4 objects of random types with names / groups / '
        'application information, then 6-20 steps: attribute operations '
        '(1.x: name+index+value; 2.0: current/new/reference) over '
        'modifiable multi-valued attributes, single-valued ones (Sensitive '
        'with falsy and truthy current value), protected attributes, '
        'unsupported and unknown names, indices in {absent, 0, in range, '
        'len, large, negative}, new Name values that collide with another '
        'instance, by owner and non-owner, singly or 2-4 in one request '
        '(Continue/Stop), mixed with Activate/Get/restart. Non-trivial: some object saw both a '
        'successful and a rejected change. Distinct = trace digest.')
PROBES = ['modify_ok', 'delete_ok', 'set_ok', 'rejected', 'protected_attempt',
          'index_out_of_range', 'negative_index', 'delete_all_by_reference',
          'restart', 'non_owner_attempt', 'falsy_single_valued_set',
          'unknown_attribute_name', 'attr_batch', 'read_inside_attr_batch',
          'attr_batch_continued_after_failure']
REAL_VS_STUB = {
    'real': ['KmipEngine attribute handlers and setters',
             'AttributePolicy rule table', 'SQLAlchemy list/association '
             'proxies incl. name index bookkeeping', 'SQLite'],
    'stub': ['TLS/clock/entropy/RSA pool as in the inline world'],
}
ASSUMPTIONS = ['the stored rows (names in id order, groups, application '
               'information, sensitive, and the protected columns) are the '
               'ground truth; GetAttributes is cross-checked against them']

PROTECTED = ['uid', 'otype', 'state', 'owner', 'policy', 'mask', 'alg',
             'len', 'initial_date', 'value']
MULTI = {'Name': 'names', 'Object Group': 'groups',
         'Application Specific Information': 'app'}
PROTECTED_NAMES = {'Unique Identifier': ('text', '77'),
                   'Object Type': ('enum', 3), 'State': ('enum', 2),
                   'Operation Policy Name': ('text', 'public'),
                   'Cryptographic Usage Mask': ('int', 0xFFFFF),
                   'Cryptographic Algorithm': ('enum', 2),
                   'Cryptographic Length': ('int', 64),
                   'Initial Date': ('date', 12345)}


def plain_value(name, v):
    if name == 'Name':
        return v[0]
    if name == 'Application Specific Information':
        return list(v)
    return v


def apply(before, uid, op, ver):
    """Expected store after a SUCCESSFUL call; None = success impossible
    under the statement (would alter a protected attribute / nothing to
    address)."""
    after = copy.deepcopy(before)
    o = after.get(uid)
    if o is None:
        return None
    kind = op['op']
    if kind == 'SetAttribute':
        n, v = op['new']['n'], op['new']['v']
        if n == 'Sensitive':
            o['sensitive'] = bool(v)
            return after
        return None
    if kind == 'ModifyAttribute':
        if ver >= (2, 0):
            n, v = op['new']['n'], op['new']['v']
            if n in MULTI:
                if op.get('cur') is None:
                    return None
                lst = o[MULTI[n]]
                cv = plain_value(n, op['cur']['v'])
                if cv not in lst:
                    return None
                lst[lst.index(cv)] = plain_value(n, v)
                return after
            if n == 'Sensitive':
                o['sensitive'] = bool(v)
                return after
            return None
        n, v, i = op['attr']['n'], op['attr']['v'], op['attr'].get('i')
        if n in MULTI:
            lst = o[MULTI[n]]
            i = 0 if i is None else i
            if not (0 <= i < len(lst)):
                return None
            lst[i] = plain_value(n, v)
            return after
        if n == 'Sensitive':
            if i is not None:
                return None
            o['sensitive'] = bool(v)
            return after
        return None
    if kind == 'DeleteAttribute':
        if ver >= (2, 0):
            if op.get('cur') is not None:
                n = op['cur']['n']
                if n not in MULTI:
                    return None
                lst = o[MULTI[n]]
                cv = plain_value(n, op['cur']['v'])
                if cv not in lst:
                    return None
                lst.remove(cv)
                return after
            n = op.get('ref')
            if n not in MULTI:
                return None
            o[MULTI[n]][:] = []
            return after
        n, i = op.get('name'), op.get('index')
        if n not in MULTI:
            return None
        lst = o[MULTI[n]]
        i = 0 if i is None else i
        if not (0 <= i < len(lst)):
            return None
        lst.pop(i)
        return after
    return None


def gen_value(r, ctx, n, li=None):
    if n == 'Name':
        if li is not None and r.random() < 0.25:
            # a value another instance of the same object may already have
            return ['n%d-%d' % (li, r.randrange(3)), 1]
        return [ctx.uname(), 1]
    if n == 'Object Group':
        return r.choice(['g1', 'g2', 'g3', 'g4'])
    if n == 'Application Specific Information':
        return ['ns%d' % r.randrange(3), 'data%d' % r.randrange(9)]
    if n == 'Sensitive':
        return r.random() < 0.6
    return 'text'


def gen_attr_op(r, ctx, lab, li, fixed_ver):
    """One attribute operation on the object labelled `lab`; with
    `fixed_ver` the operation is made to fit that version (batches)."""
    ref = '@' + lab
    ver = fixed_ver or r.choice([(1, 0), (1, 2), (1, 4), (2, 0), (2, 0)])
    y = r.random()
    if y < 0.55:
        n = r.choice(list(MULTI))
    elif y < 0.7:
        n = 'Sensitive'
        if ver < (1, 4):
            if fixed_ver:
                n = r.choice(list(MULTI))
            else:
                ver = (1, 4)
    elif y < 0.9:
        n = r.choice(list(PROTECTED_NAMES))
    else:
        n = r.choice(['Contact Information', 'x-custom',
                      'Cryptographic Parameters', 'Link', 'Lease Time',
                      'Activation Date'])
    if n in PROTECTED_NAMES:
        kind, v = PROTECTED_NAMES[n]
        mk = lambda i=None: gen.A(n, v, i, kind)
    elif n in ('Contact Information', 'x-custom'):
        mk = lambda i=None: gen.A(n, 'someone', i, 'text')
    elif n == 'Cryptographic Parameters':
        mk = lambda i=None: gen.A(n, {'mode': 1}, i, 'cp')
    elif n == 'Link':
        mk = lambda i=None: gen.A(n, [0x101, '1'], i, 'link')
    elif n == 'Lease Time':
        mk = lambda i=None: gen.A(n, 60, i, 'interval')
    elif n == 'Activation Date':
        mk = lambda i=None: gen.A(n, 1600000000, i, 'date')
    else:
        mk = lambda i=None: gen.A(n, gen_value(r, ctx, n, li), i)
    idx = r.choice([None, 0, 0, 1, 2, 3, 9, -1])
    k = r.choice(['Modify', 'Modify', 'Delete', 'Delete', 'Set'])
    if k == 'Set':
        if fixed_ver and ver < (2, 0):
            k = 'Modify'
        else:
            ver = (2, 0)

    # current values that (may) exist on the object
    def existing():
        if n == 'Name':
            if r.random() < 0.08:
                # a value that is given but empty still names one instance
                return ['', 1]
            return [r.choice(['n%d-%d' % (li, j) for j in range(3)]
                             + ['name-%d' % r.randrange(1, 5)]), 1]
        if n == 'Object Group':
            return r.choice(['g1', 'g2', 'g3'])
        if n == 'Application Specific Information':
            j = r.randrange(3)
            return ['ns%d' % j, 'data%d' % j]
        return None
    if k == 'Set':
        op = {'op': 'SetAttribute', 'uid': ref, 'new': mk()}
    elif k == 'Modify':
        if ver >= (2, 0):
            op = {'op': 'ModifyAttribute', 'uid': ref, 'new': mk()}
            ev = existing()
            if ev is not None and r.random() < 0.85:
                op['cur'] = gen.A(n, ev)
            elif n == 'Sensitive' and r.random() < 0.5:
                op['cur'] = gen.A(n, r.random() < 0.5)
        else:
            op = {'op': 'ModifyAttribute', 'uid': ref, 'attr': mk(idx)}
    else:
        if ver >= (2, 0):
            op = {'op': 'DeleteAttribute', 'uid': ref}
            ev = existing()
            if ev is not None and r.random() < 0.6:
                op['cur'] = gen.A(n, ev)
            elif r.random() < 0.8 or n in ('x-custom',):
                op['ref'] = n
            else:
                op['cur'] = mk()
        else:
            op = {'op': 'DeleteAttribute', 'uid': ref, 'name': n,
                  'index': idx}
    return op, ver


def generate(rng, tier, index):
    r = rng
    actors = [{'cn': 'owner'}, {'cn': 'other'}]
    ctx = gen.Ctx(r, nactors=1)
    steps = []
    labels = []
    for i in range(r.randint(2, 4)):
        ver = r.choice([(1, 2), (1, 4), (1, 4)])
        ot = r.choice(gen.OTYPES)
        op = gen.gen_register(ctx, ver, 0, ot) if r.random() < 0.8 \
            else gen.gen_create(ctx, ver, 0)
        # known multi-valued contents so that indices/current values hit
        op['attrs'] = [a for a in op['attrs'] if a['n'] not in MULTI]
        for j in range(r.choice([0, 1, 2, 3])):
            op['attrs'].append(gen.A('Name', ['n%d-%d' % (i, j), 1], j))
        for j in range(r.choice([0, 1, 2])):
            op['attrs'].append(gen.A('Object Group', 'g%d' % (j + 1), j))
        for j in range(r.choice([0, 1, 2])):
            op['attrs'].append(gen.A('Application Specific Information',
                                     ['ns%d' % j, 'data%d' % j], j))
        labels.append((op['label'], i, op))
        steps.append({'actor': 0, 'ver': list(ver), 'items': [op]})
    # an Active wrapping key, for reads with a key wrapping specification
    # inside attribute batches (a read must leave nothing behind for the
    # commit of a later attribute operation to pick up)
    steps.append({'actor': 0, 'ver': [1, 2], 'items': [{
        'op': 'Register', 'label': 'wk', 'otype': 'SymmetricKey',
        'attrs': [gen.A('Cryptographic Usage Mask', 0x30)],
        'obj': {'kft': 1, 'value': '5a' * 16, 'alg': 3, 'len': 128}}]})
    steps.append({'actor': 0, 'ver': [1, 2], 'items': [
        {'op': 'Activate', 'uid': '@wk'}]})
    for _ in range(r.randint(6, 20)):
        x = r.random()
        lab, li, cop = r.choice(labels)
        ref = '@' + lab
        if x < 0.06:
            steps.append({'restart': True})
            continue
        if x < 0.12:
            steps.append({'actor': 0, 'ver': [1, 2], 'items': [
                {'op': r.choice(['Activate', 'Get', 'GetAttributes']),
                 'uid': ref}]})
            continue
        actor = 0 if r.random() < 0.88 else 1
        if x < 0.3:
            # several attribute operations in one request: the store can
            # only be the sum of the items reported successful
            ver = r.choice([(1, 0), (1, 2), (1, 4), (2, 0), (2, 0)])
            items = []
            for _ in range(r.choice([2, 2, 3, 4])):
                lab, li, cop = r.choice(labels)
                o, _v = gen_attr_op(r, ctx, lab, li, ver)
                if r.random() < 0.3:
                    # rename one instance to the value of a sibling
                    # instance (legal or not, it must be all or nothing)
                    nv = gen.A('Name', ['n%d-%d' % (li, r.randrange(2)), 1])
                    o = {'op': 'ModifyAttribute', 'uid': '@' + lab}
                    if ver >= (2, 0):
                        o['new'] = nv
                        o['cur'] = gen.A('Name', ['n%d-%d' % (
                            li, r.randrange(3)), 1])
                    else:
                        nv['i'] = r.choice([0, 1, 1, 2])
                        o['attr'] = nv
                items.append(o)
            if r.random() < 0.3:
                # a read among them: Get, plain or with a key wrapping
                # specification, GetAttributes
                lab2 = r.choice(labels)[0]
                rd = r.choice([
                    {'op': 'Get', 'uid': '@' + lab2, 'wrapspec': {
                        'method': 1, 'enc': {'uid': '@wk',
                                             'cp': {'mode': 0xD}},
                        'encoding': 1}},
                    {'op': 'Get', 'uid': '@' + lab2, 'wrapspec': {
                        'method': 1, 'enc': {'uid': '@wk',
                                             'cp': {'mode': 0xD}},
                        'encoding': 1}},
                    {'op': 'Get', 'uid': '@' + lab2},
                    {'op': 'GetAttributes', 'uid': '@' + lab2}])
                items.insert(r.randrange(len(items)), rd)
            steps.append({'actor': actor, 'ver': list(ver), 'items': items,
                          'cont': r.choice([1, 1, 1, 2, None]),
                          'attr_batch': True})
            continue
        op, ver = gen_attr_op(r, ctx, lab, li, None)
        steps.append({'actor': actor, 'ver': list(ver), 'items': [op],
                      'attr': True})
    if index % 8 == 7:
        # the attribute table, complete: every attribute name the request
        # language can encode, with one of Set / Modify / Delete in the 1.x
        # or 2.0 form, on one of the objects
        from sim import reqs
        from sim.props.c13 import SIMPLE_KINDS
        lab, li, cop = r.choice(labels)
        for n in sorted(x for x, (tg, kd) in reqs.ATTRS.items()
                        if kd in SIMPLE_KINDS):
            a = gen.A(n, SIMPLE_KINDS[reqs.ATTRS[n][1]])
            if n in PROTECTED_NAMES:
                kind, v = PROTECTED_NAMES[n]
                a = gen.A(n, v, None, kind)
            elif n in MULTI:
                a = gen.A(n, gen_value(r, ctx, n, li))
            k = r.choice(['Set', 'Modify', 'Modify', 'Delete', 'Delete'])
            v2 = k == 'Set' or r.random() < 0.4
            ver = (2, 0) if v2 else r.choice([(1, 0), (1, 2), (1, 4)])
            if k == 'Set':
                op = {'op': 'SetAttribute', 'uid': '@' + lab, 'new': a}
            elif k == 'Modify':
                if v2:
                    op = {'op': 'ModifyAttribute', 'uid': '@' + lab,
                          'new': a}
                    if r.random() < 0.5:
                        op['cur'] = dict(a)
                else:
                    if r.random() < 0.5:
                        a['i'] = 0
                    op = {'op': 'ModifyAttribute', 'uid': '@' + lab,
                          'attr': a}
            else:
                if v2:
                    op = {'op': 'DeleteAttribute', 'uid': '@' + lab}
                    if r.random() < 0.5:
                        op['cur'] = a
                    else:
                        op['ref'] = n
                else:
                    op = {'op': 'DeleteAttribute', 'uid': '@' + lab,
                          'name': n, 'index': r.choice([None, 0])}
            steps.append({'actor': 0, 'ver': list(ver), 'items': [op],
                          'attr': True})
    return {'actors': actors, 'seed': r.randrange(1 << 30), 'steps': steps}


def api_consistent(W, view):
    """GetAttributes (as owner, KMIP 1.4) must reflect the stored rows."""
    probs = []
    for uid, o in view.items():
        resp = W.request({'actor': 0, 'ver': [1, 4], 'items': [
            {'op': 'GetAttributes', 'uid': uid}]}, record=False)
        if resp is None or not resp.items or resp.items[0]['status'] != 0:
            continue
        at = resp.items[0]['payload'].get('attrs', [])
        names = [v[0] for n, i, v in at if n == 'Name']
        groups = [v for n, i, v in at if n == 'Object Group']
        app = [list(v) for n, i, v in at
               if n == 'Application Specific Information']
        sens = [v for n, i, v in at if n == 'Sensitive']
        if names != o['names'] or groups != o['groups'] or \
                app != [list(x) for x in o['app']] or \
                (sens and bool(sens[0]) != o['sensitive']):
            probs.append({'uid': uid, 'api': [names, groups, app, sens],
                          'stored': [o['names'], o['groups'], o['app'],
                                     o['sensitive']]})
        idx_bad = [(n, i) for n in MULTI for k, (nn, i, v) in enumerate(
            [a for a in at if a[0] == n]) if i != k]
        if idx_bad:
            probs.append({'uid': uid, 'indices_not_0_to_n': idx_bad[:3]})
    return probs


def run_attr_batch(W, st, probes, flag, ok_on, rej_on):
    """Several attribute operations in one request. The store afterwards
    must be the store before with exactly the items reported successful
    applied in order; failed and unprocessed items contribute nothing."""
    ver = tuple(st['ver'])
    before = model.store_view(W.db)
    resp = W.request(copy.deepcopy(st))
    W.clock.advance(1)
    after = model.store_view(W.db)
    probes['attr_batch'] += 1
    for u, o in before.items():
        a = after.get(u)
        if a is None:
            flag('object-vanished', op='batch', attr=None)
            continue
        for f in PROTECTED:
            if a[f] != o[f]:
                flag('protected-attribute-changed', op='batch', attr=f,
                     uid=u, before=o[f], after=a[f])
    if resp is None or not resp.items:
        if after != before:
            flag('unanswered-call-changed-store', op='batch', attr=None,
                 escape=W.last['escape'])
        return
    exp = before
    failed = []
    for k, it in enumerate(resp.items):
        if k >= len(st['items']):
            break
        op = st['items'][k]
        uid = W.resolve(op['uid'])
        aname = (op.get('new') or op.get('attr') or op.get('cur') or
                 {}).get('n') or op.get('name') or op.get('ref')
        if it['status'] != 0:
            failed.append([k, op['op'], aname, it['reason_name'],
                           it['message']])
            rej_on.add(uid)
            probes['rejected'] += 1
            continue
        if op['op'] in ('Get', 'GetAttributes'):
            probes['read_inside_attr_batch'] += 1
            continue            # a read contributes nothing to the store
        ok_on.add(uid)
        if st['actor'] != 0:
            flag('non-owner-changed-attribute', op=op['op'], attr=aname)
        w = apply(exp, uid, op, ver)
        if w is None:
            flag('call-succeeded-but-nothing-could-be-addressed',
                 op=op['op'], attr=aname, request=op, version=ver, item=k)
            return
        exp = w
    if failed and len(resp.items) > failed[0][0] + 1:
        probes['attr_batch_continued_after_failure'] += 1
    if exp != after:
        diffs = {}
        for u in set(exp) | set(after):
            if exp.get(u) != after.get(u):
                diffs[u] = dict(
                    (k, [exp.get(u, {}).get(k), after.get(u, {}).get(k)])
                    for k in ('names', 'groups', 'app', 'sensitive')
                    if exp.get(u, {}).get(k) != after.get(u, {}).get(k))
        flag('batch-store-is-not-the-sum-of-successful-items' if failed
             else 'change-is-not-exactly-as-asked',
             op='batch', attr=None, failed_items=failed,
             items=[o['op'] for o in st['items']], version=ver,
             want_vs_got=diffs)
        return
    probs = api_consistent(W, after)
    if probs:
        flag('getattributes-does-not-reflect-store', op='batch', attr=None,
             problems=probs[:2])


def execute(plan):
    probes = dict((p, 0) for p in PROBES)
    viol = []
    W = world.World(plan['actors'], None, seed=plan['seed'])
    ok_on = set()
    rej_on = set()
    trace = []

    def flag(oracle, **det):
        viol.append({'sig': {'oracle': oracle, 'op': det.get('op'),
                             'attr': det.get('attr')}, 'detail': det})

    try:
        for si, st in enumerate(plan['steps']):
            if 'restart' in st:
                b = model.store_view(W.db)
                W.restart()
                probes['restart'] += 1
                if model.store_view(W.db) != b:
                    flag('restart-changed-store')
                continue
            if st.get('attr_batch'):
                run_attr_batch(W, st, probes, flag, ok_on, rej_on)
                trace.append(kernel.digest_of(sorted(
                    model.store_view(W.db).items())))
                continue
            if not st.get('attr'):
                W.request(copy.deepcopy(st))
                W.clock.advance(1)
                continue
            op = st['items'][0]
            ver = tuple(st['ver'])
            uid = W.resolve(op['uid'])
            before = model.store_view(W.db)
            resp = W.request(copy.deepcopy(st))
            W.clock.advance(1)
            after = model.store_view(W.db)
            aname = (op.get('new') or op.get('attr') or op.get('cur') or
                     {}).get('n') or op.get('name') or op.get('ref')
            if aname in PROTECTED_NAMES:
                probes['protected_attempt'] += 1
            if aname == 'x-custom':
                probes['unknown_attribute_name'] += 1
            if st['actor'] != 0:
                probes['non_owner_attempt'] += 1
            idx = op.get('index') if 'index' in op else (
                op.get('attr') or {}).get('i')
            if idx is not None and idx < 0:
                probes['negative_index'] += 1
            if idx is not None and idx >= 3:
                probes['index_out_of_range'] += 1
            # protected attributes never change, on any object
            for u, o in before.items():
                a = after.get(u)
                if a is None:
                    flag('object-vanished', op=op['op'], attr=aname)
                    continue
                for f in PROTECTED:
                    if a[f] != o[f]:
                        flag('protected-attribute-changed', op=op['op'],
                             attr=f, uid=u, before=o[f], after=a[f],
                             via=aname)
            if resp is None or not resp.items:
                if after != before:
                    flag('unanswered-call-changed-store', op=op['op'],
                         attr=aname, escape=W.last['escape'])
                continue
            it = resp.items[0]
            if it['status'] != 0:
                probes['rejected'] += 1
                rej_on.add(uid)
                if after != before:
                    flag('failed-call-changed-store', op=op['op'],
                         attr=aname, reason=it['reason_name'],
                         message=it['message'])
                continue
            ok_on.add(uid)
            probes[{'ModifyAttribute': 'modify_ok',
                    'DeleteAttribute': 'delete_ok',
                    'SetAttribute': 'set_ok'}[op['op']]] += 1
            if op['op'] == 'DeleteAttribute' and op.get('ref'):
                probes['delete_all_by_reference'] += 1
            if aname == 'Sensitive' and uid in before and \
                    not before[uid]['sensitive']:
                probes['falsy_single_valued_set'] += 1
            if st['actor'] != 0:
                flag('non-owner-changed-attribute', op=op['op'], attr=aname)
            want = apply(before, uid, op, ver)
            if want is None:
                flag('call-succeeded-but-nothing-could-be-addressed',
                     op=op['op'], attr=aname, request=op, version=ver,
                     before=before.get(uid) and {
                         k: before[uid][k] for k in
                         ('names', 'groups', 'app', 'sensitive')},
                     after=after.get(uid) and {
                         k: after[uid][k] for k in
                         ('names', 'groups', 'app', 'sensitive')})
            elif want != after:
                diffs = {}
                for u in set(want) | set(after):
                    if want.get(u) != after.get(u):
                        diffs[u] = dict(
                            (k, [want.get(u, {}).get(k),
                                 after.get(u, {}).get(k)])
                            for k in ('names', 'groups', 'app', 'sensitive')
                            if want.get(u, {}).get(k) !=
                            after.get(u, {}).get(k))
                flag('change-is-not-exactly-as-asked', op=op['op'],
                     attr=aname, request=op, version=ver,
                     want_vs_got=diffs,
                     other_object_changed=any(u != uid for u in diffs))
            # response echoes
            if ver < (2, 0) and op['op'] == 'ModifyAttribute':
                got = [(n, v) for n, i, v in it['payload'].get('attrs', [])]
                wantv = op['attr']['v']
                if got and got[0][1] != (list(wantv) if isinstance(
                        wantv, (list, tuple)) else wantv):
                    flag('response-attribute-differs-from-request',
                         op=op['op'], attr=aname, got=got, want=wantv)
            probs = api_consistent(W, after)
            if probs:
                flag('getattributes-does-not-reflect-store', op=op['op'],
                     attr=aname, problems=probs[:2])
            trace.append(kernel.digest_of(sorted(after.items())))
        nontrivial = bool(ok_on & rej_on)
        digest = kernel.digest_of([W.trace, trace])
        return {
            'violations': viol, 'nontrivial': nontrivial, 'key': digest,
            'digest': digest, 'faults': {'restart_clean': W.restarts},
            'probes': probes, 'states': trace,
            'sim_s': W.clock.covered(), 'steps': W.requests,
            'sample': [[s['ver'], s['items'][0]['op'],
                        (s['items'][0].get('new') or s['items'][0].get('attr')
                         or s['items'][0].get('cur') or {}).get('n') or
                        s['items'][0].get('name') or s['items'][0].get('ref')]
                       for s in plan['steps'] if s.get('attr')][:8],
        }
    finally:
        W.close()
