"""
Small executable reference model: the access-control decision as property
C03 states it, the built-in policies as the documentation tabulates them,
a view of the persistent store read straight from the SQLite tables, the
lifecycle relation, and Locate matching. Imports nothing from `kmip`.
"""
import os
import re
import sqlite3

from sim import kernel

OT_NAME = {1: 'CERTIFICATE', 2: 'SYMMETRIC_KEY', 3: 'PUBLIC_KEY',
           4: 'PRIVATE_KEY', 5: 'SPLIT_KEY', 6: 'TEMPLATE',
           7: 'SECRET_DATA', 8: 'OPAQUE_DATA'}
OT_WIRE = {'CERTIFICATE': 'Certificate', 'SYMMETRIC_KEY': 'SymmetricKey',
           'PUBLIC_KEY': 'PublicKey', 'PRIVATE_KEY': 'PrivateKey',
           'SPLIT_KEY': 'SplitKey', 'TEMPLATE': 'Template',
           'SECRET_DATA': 'SecretData', 'OPAQUE_DATA': 'OpaqueData'}
DOC_OT = {'Certificate': 'CERTIFICATE', 'Symmetric Key': 'SYMMETRIC_KEY',
          'Public Key': 'PUBLIC_KEY', 'Private Key': 'PRIVATE_KEY',
          'Split Key': 'SPLIT_KEY', 'Template': 'TEMPLATE',
          'Secret Data': 'SECRET_DATA', 'Opaque Data': 'OPAQUE_DATA',
          'Opaque Object': 'OPAQUE_DATA', 'PGP Key': 'PGP_KEY'}
DOC_PERM = {'Allow All': 'ALLOW_ALL', 'Allow Owner': 'ALLOW_OWNER',
            'Disallow All': 'DISALLOW_ALL'}

# operation (wire name) -> policy operation key
OP_KEY = {'Get': 'GET', 'GetAttributes': 'GET_ATTRIBUTES',
          'GetAttributeList': 'GET_ATTRIBUTE_LIST', 'Activate': 'ACTIVATE',
          'Revoke': 'REVOKE', 'Destroy': 'DESTROY', 'Locate': 'LOCATE',
          'ModifyAttribute': 'MODIFY_ATTRIBUTE',
          'DeleteAttribute': 'DELETE_ATTRIBUTE',
          'SetAttribute': 'SET_ATTRIBUTE', 'Encrypt': 'ENCRYPT',
          'Decrypt': 'DECRYPT', 'Sign': 'SIGN',
          'SignatureVerify': 'SIGNATURE_VERIFY', 'MAC': 'MAC',
          'DeriveKey': 'DERIVE_KEY'}

_BUILTIN = None


def builtin_policies():
    """'default' and 'public' as tabulated in docs/source/server.rst."""
    global _BUILTIN
    if _BUILTIN is not None:
        return _BUILTIN
    path = os.path.join(kernel.REPO, 'docs', 'source', 'server.rst')
    if not os.path.exists(path):
        path = '/repo/docs/source/server.rst'
    out = {}
    cur = None
    with open(path) as f:
        for line in f:
            m = re.match(r'^``(\w+)`` policy\s*$', line)
            if m:
                cur = m.group(1)
                out[cur] = {'preset': {}}
                continue
            if cur is None:
                continue
            if line.startswith('.. _') or (line.strip() and
                                           re.match(r'^[A-Z][a-z]+\n?$',
                                                    line) and
                                           'policy' not in line and
                                           len(out[cur]['preset']) > 0 and
                                           False):
                cur = None
                continue
            cols = re.split(r'\s{2,}', line.strip())
            if len(cols) == 3 and cols[2] in DOC_PERM and cols[0] in DOC_OT:
                ot = DOC_OT[cols[0]]
                op = cols[1].upper().replace(' ', '_')
                out[cur]['preset'].setdefault(ot, {})[op] = DOC_PERM[cols[2]]
    for pol in out.values():
        for ops in pol['preset'].values():
            # documented deviations (DESIGN.md, C03): the table has a typo
            # ('Modify' for Secret Data) and predates Set Attribute, which
            # gets the permission of Modify Attribute
            if 'MODIFY' in ops:
                ops['MODIFY_ATTRIBUTE'] = ops.pop('MODIFY')
            if 'MODIFY_ATTRIBUTE' in ops and 'SET_ATTRIBUTE' not in ops:
                ops['SET_ATTRIBUTE'] = ops['MODIFY_ATTRIBUTE']
    if 'default' not in out or 'public' not in out or \
            len(out['default']['preset']) < 5:
        raise RuntimeError('could not read built-in policy tables from %s'
                           % path)
    _BUILTIN = out
    return out


def policy_store(user_policies=None):
    """name -> {'preset': {...}, 'groups': {...}} in string form. Legacy
    flat documents (object types at top level) become a preset section,
    as the documentation describes."""
    st = {}
    for k, v in builtin_policies().items():
        st[k] = v
    for name, doc in (user_policies or {}).items():
        if name in ('default', 'public'):
            continue
        if not doc:
            continue
        if set(doc) <= {'preset', 'groups'}:
            st[name] = dict((k, v) for k, v in doc.items() if v)
        else:
            st[name] = {'preset': doc}
    return st


def _section_allows(section, user, owner, otype, op):
    if not section:
        return False
    perm = (section.get(otype) or {}).get(op)
    if perm == 'ALLOW_ALL':
        return True
    if perm == 'ALLOW_OWNER':
        return user == owner
    return False


def grants(store, policy_name, user, groups, owner, otype, op):
    """C03: allow-all to anyone, allow-owner to the creator, anything
    else (missing policy / object type / operation / group) to nobody.
    With group information the most permissive applicable group section
    decides (the preset section when the policy defines no groups);
    without it only the preset section."""
    pol = store.get(policy_name)
    if not pol:
        return False
    if groups is None:
        return _section_allows(pol.get('preset'), user, owner, otype, op)
    gs = pol.get('groups')
    if not gs:
        return _section_allows(pol.get('preset'), user, owner, otype, op)
    return any(_section_allows(gs.get(g), user, owner, otype, op)
               for g in groups)


def grants_code_or_statement(store, policy_name, user, groups, owner, otype,
                             op):
    return grants(store, policy_name, user, groups, owner, otype, op)


# ---------------------------------------------------------------------------
def store_view(path):
    """uid -> attributes of the stored object, straight from the tables."""
    con = sqlite3.connect(path, timeout=0.5)
    try:
        cur = con.cursor()
        objs = {}
        try:
            rows = cur.execute(
                'select uid, object_type, class_type, value, '
                'operation_policy_name, sensitive, initial_date, owner '
                'from managed_objects').fetchall()
        except sqlite3.OperationalError:
            return {}
        for uid, ot, cls, value, pol, sens, idate, owner in rows:
            objs[str(uid)] = {
                'uid': str(uid), 'otype': OT_NAME.get(ot, ot), 'class': cls,
                'value': None if value is None else bytes(value).hex(),
                'policy': pol, 'sensitive': bool(sens),
                'initial_date': idate, 'owner': owner, 'state': None,
                'mask': None, 'alg': None, 'len': None, 'names': [],
                'groups': [], 'app': [], 'kft': None}
        for uid, mask, state in cur.execute(
                'select uid, cryptographic_usage_mask, state from '
                'crypto_objects'):
            if str(uid) in objs:
                objs[str(uid)]['mask'] = mask
                objs[str(uid)]['state'] = state
        for uid, alg, ln, kft in cur.execute(
                'select uid, cryptographic_algorithm, cryptographic_length,'
                ' key_format_type from keys'):
            if str(uid) in objs:
                objs[str(uid)].update({'alg': alg, 'len': ln, 'kft': kft})
        for uid, ct in cur.execute(
                'select uid, certificate_type from certificates'):
            if str(uid) in objs:
                objs[str(uid)]['ctype'] = ct
        for uid, dt in cur.execute(
                'select uid, data_type from secret_data_objects'):
            if str(uid) in objs:
                objs[str(uid)]['sdtype'] = dt
        for mo, name, ntype in cur.execute(
                'select mo_uid, name, name_type from managed_object_names '
                'order by id'):
            if str(mo) in objs:
                objs[str(mo)]['names'].append(name)
        for mo, g in cur.execute(
                'select m.managed_object_id, g.object_group from '
                'object_group_map m join object_groups g on '
                'g.id = m.object_group_id order by g.id'):
            if str(mo) in objs:
                objs[str(mo)]['groups'].append(g)
        for mo, ns, data in cur.execute(
                'select m.managed_object_id, a.application_namespace, '
                'a.application_data from app_specific_info_map m join '
                'app_specific_info a on a.id = m.app_specific_info_id '
                'order by a.id'):
            if str(mo) in objs:
                objs[str(mo)]['app'].append([ns, data])
        return objs
    finally:
        con.close()


# lifecycle -----------------------------------------------------------------
PRE_ACTIVE, ACTIVE, DEACTIVATED, COMPROMISED, DESTROYED, \
    DESTROYED_COMPROMISED = 1, 2, 3, 4, 5, 6
ALLOWED_TRANSITIONS = {
    (PRE_ACTIVE, ACTIVE), (ACTIVE, DEACTIVATED),
    (PRE_ACTIVE, COMPROMISED), (ACTIVE, COMPROMISED),
    (DEACTIVATED, COMPROMISED),
}
STATE_RANK = {PRE_ACTIVE: 0, ACTIVE: 1, DEACTIVATED: 2, COMPROMISED: 3,
              DESTROYED: 4, DESTROYED_COMPROMISED: 5}

USE_REQUIREMENTS = {
    # op -> (object type, mask bit)
    'Encrypt': ('SYMMETRIC_KEY', 0x4), 'Decrypt': ('SYMMETRIC_KEY', 0x8),
    'Sign': ('PRIVATE_KEY', 0x1), 'SignatureVerify': ('PUBLIC_KEY', 0x2),
    'MAC': (None, 0x80),
}
