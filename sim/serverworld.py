"""
The server world: the real KmipServer front end (`__init__`, configuration
file parsing, logging set-up, `start()`, `serve()`, `_setup_connection_handler`,
`stop()`) runs on top of the inline / threaded worlds, so that everything
between the configuration file and the session objects is PyKMIP's own code:

  server.conf  --KmipServerConfig-->  settings  --KmipServer.start()-->
  policy store + PolicyDirectoryMonitor + KmipEngine  --serve()/accept-->
  _setup_connection_handler --> KmipSession(engine, connection, address,
  enable_tls_client_auth=..., auth_settings=...) --> start()

Seams (module attributes of kmip.services.server.server, looked up at call
time): `socket` (listening socket whose accept() hands out the simulator's
FakeConnections), `ssl` (wrap_socket returns the socket it was given; TLS is
below the seam), `multiprocessing` (Manager().dict() is a plain dict with the
DictProxy key-copy behaviour), `signal` (handlers are recorded, not
installed), `threading` (enumerate() for stop()), `monitor` (the real
PolicyDirectoryMonitor, whose process start() becomes: run() synchronously
when not live, a scheduler task when a scheduler is present, and an explicit
`tick()` = `sleep(1); scan_policies()` - the body of its loop - otherwise) and
`session` (the real KmipSession, whose thread start() registers the session
with the simulator instead of starting an unscheduled thread).
"""
import logging
import os
import socket as _socket
import ssl as _ssl
import threading as _threading
import multiprocessing as _mp
import signal as _signal
import json

from sim import kernel, net, world


class StoreDict(dict):
    """multiprocessing DictProxy look-alike: keys()/values()/items() are
    copies, every access is atomic."""

    def keys(self):
        return list(dict.keys(self))

    def values(self):
        return list(dict.values(self))

    def items(self):
        return list(dict.items(self))


class _FakeManager(object):
    def dict(self, *a, **kw):
        return StoreDict(*a, **kw)

    def shutdown(self):
        pass


class _FakeMP(object):
    def __init__(self):
        self.managers = 0

    def Manager(self):
        self.managers += 1
        return _FakeManager()

    def __getattr__(self, name):
        return getattr(_mp, name)


class _FakeSignal(object):
    def __init__(self):
        self.handlers = {}

    def signal(self, signum, handler):
        old = self.handlers.get(signum)
        self.handlers[signum] = handler
        return old

    def __getattr__(self, name):
        return getattr(_signal, name)


class _ListenSocket(object):
    def __init__(self, owner):
        self.owner = owner
        self.queue = []
        self.bound = None
        self.listening = False
        self.closed = False
        self.opts = []

    def setsockopt(self, *a):
        self.opts.append(a)

    def bind(self, addr):
        self.bound = addr

    def listen(self, n):
        self.listening = True

    def accept(self):
        if self.queue:
            return self.queue.pop(0)
        # nothing more to accept in this simulated instant: the accept
        # call times out (as it does every 10 s in production) and the
        # simulator asks the service loop to end
        self.owner.server._is_serving = False
        raise _socket.timeout('simulated accept timeout')

    def shutdown(self, how):
        pass

    def close(self):
        self.closed = True


class _FakeSocketModule(object):
    def __init__(self, owner):
        self.owner = owner
        self.default_timeout = None

    def socket(self, *a, **kw):
        self.owner.listen_socket = _ListenSocket(self.owner)
        return self.owner.listen_socket

    def setdefaulttimeout(self, t):
        self.default_timeout = t

    def __getattr__(self, name):
        return getattr(_socket, name)


class _FakeSSL(object):
    def __init__(self, owner):
        self.owner = owner

    def wrap_socket(self, sock, **kw):
        self.owner.wrap_args = kw
        return sock

    def __getattr__(self, name):
        return getattr(_ssl, name)


class _FakeThreading(object):
    def enumerate(self):
        return [_threading.current_thread()]

    def __getattr__(self, name):
        return getattr(_threading, name)


class _ModuleProxy(object):
    """A module with some names overridden."""

    def __init__(self, real, **over):
        self.__dict__['_real'] = real
        self.__dict__.update(over)

    def __getattr__(self, name):
        return getattr(self._real, name)


def conf_text(dirname, tls_client_auth, auth_settings, policy_path,
              database_path, logging_level, auth_suite='TLS1.2'):
    lines = ['[server]', 'hostname=127.0.0.1', 'port=5696',
             'certificate_path=%s' % os.path.join(dirname, 'server.crt'),
             'key_path=%s' % os.path.join(dirname, 'server.key'),
             'ca_path=%s' % os.path.join(dirname, 'ca.crt'),
             'auth_suite=%s' % auth_suite,
             'policy_path=%s' % policy_path,
             'database_path=%s' % database_path]
    if tls_client_auth is not None:
        lines.append('enable_tls_client_auth=%s' % (
            'True' if tls_client_auth else 'False'))
    if logging_level is not None:
        lines.append('logging_level=%s' % logging_level)
    used = set()
    for name, cfg in auth_settings or []:
        sec = name
        k = 2
        while sec in used:
            sec = '%s%d' % (name, k)
            k += 1
        used.add(sec)
        lines.append('')
        lines.append('[%s]' % sec)
        for a, b in cfg.items():
            if b is not None:
                lines.append('%s=%s' % (a, b))
    return '\n'.join(lines) + '\n'


class ServerMixin(object):
    """Replaces World.start_engine / World.session by the real KmipServer
    path. Mixed into World (inline) and ThreadedWorld."""

    server_opts = None

    def _install_server_seams(self):
        import kmip.services.server.server as srv
        import kmip.services.server.monitor as mon
        import kmip.services.server.session as ses
        self._srv_mod = srv
        self._mon_mod = mon
        if not hasattr(self, '_srv_saved'):
            self._srv_saved = dict(
                (n, getattr(srv, n)) for n in
                ('socket', 'ssl', 'multiprocessing', 'signal', 'threading',
                 'monitor', 'session'))
            self._mon_signal = mon.signal
        owner = self
        self.fake_signal = _FakeSignal()
        self.fake_mp = _FakeMP()
        srv.socket = _FakeSocketModule(self)
        srv.ssl = _FakeSSL(self)
        srv.multiprocessing = self.fake_mp
        srv.signal = self.fake_signal
        srv.threading = _FakeThreading()
        mon.signal = self.fake_signal

        class SimMonitor(mon.PolicyDirectoryMonitor):
            def start(self_m):
                owner.monitor_started += 1
                sch = getattr(owner, 'sched', None)
                if not self_m.live_monitoring:
                    self_m.run()
                elif sch is not None:
                    owner.monitor_task = sch.spawn('monitor', self_m.run)
                else:
                    self_m.initialize_tracking_structures()

            def join(self_m, timeout=None):
                return None

        class SimSession(ses.KmipSession):
            def start(self_s):
                owner._accepted.append(self_s)

        srv.monitor = _ModuleProxy(mon, PolicyDirectoryMonitor=SimMonitor)
        srv.session = _ModuleProxy(ses, KmipSession=SimSession)

    def _restore_server_seams(self):
        saved = getattr(self, '_srv_saved', None)
        if saved:
            for n, v in saved.items():
                setattr(self._srv_mod, n, v)
            self._mon_mod.signal = self._mon_signal
            self._srv_saved = None

    # ------------------------------------------------------------------
    def start_engine(self):
        opts = self.server_opts or {}
        self._install_server_seams()
        self._accepted = []
        self.monitor_started = 0
        self.monitor_task = None
        self.listen_socket = None
        self.wrap_args = None
        poldir = os.path.join(self.dir, 'policies')
        first = not os.path.isdir(poldir)
        os.makedirs(poldir, exist_ok=True)
        for n in ('server.crt', 'server.key', 'ca.crt'):
            with open(os.path.join(self.dir, n), 'w') as f:
                f.write('simulated\n')
        if first:
            for fname, doc in sorted((self.policy_files or {}).items()):
                with open(os.path.join(poldir, fname), 'w') as f:
                    if isinstance(doc, str):
                        f.write(doc)
                    else:
                        json.dump(doc, f)
                os.utime(os.path.join(poldir, fname),
                         (self.clock.now, self.clock.now))
        self.policy_dir = poldir
        self.conf_path = os.path.join(self.dir, 'server.conf')
        with open(self.conf_path, 'w') as f:
            f.write(conf_text(self.dir, opts.get('tls_client_auth_conf',
                                                 self.tls_client_auth),
                              self.auth_settings, poldir, self.db,
                              opts.get('logging_level'),
                              opts.get('auth_suite', 'TLS1.2')))
        self.log_path = os.path.join(self.dir, 'log', 'server.log')
        from kmip.services.server.server import KmipServer
        self._drop_server_log_handlers()
        kw = {}
        for k in ('enable_tls_client_auth', 'logging_level', 'policy_path',
                  'database_path'):
            if k in (opts.get('kwargs') or {}):
                kw[k] = opts['kwargs'][k]
        self.server = KmipServer(config_path=self.conf_path,
                                 log_path=self.log_path,
                                 live_policies=bool(opts.get('live')), **kw)
        self.server.start()
        self.engine = self.server._engine
        self.policies = self.server.policies
        self.monitor = self.server.policy_monitor
        self.sessions = {}

    def _drop_server_log_handlers(self):
        lg = logging.getLogger('kmip.server')
        for h in list(lg.handlers):
            lg.removeHandler(h)
            try:
                h.close()
            except Exception:
                pass
        lg.setLevel(logging.NOTSET)

    def stop_engine(self):
        srv = getattr(self, 'server', None)
        if srv is not None:
            try:
                srv.stop()
            except Exception as e:
                self.stop_error = '%s: %s' % (type(e).__name__, e)
            self.server = None
        world.World.stop_engine(self)

    def close(self):
        try:
            super(ServerMixin, self).close()
        finally:
            self._drop_server_log_handlers()
            self._restore_server_seams()

    def tick(self):
        """One iteration of the live monitor loop (inline mode)."""
        self.clock.sleep(1)
        self.monitor.scan_policies()

    def server_log_text(self):
        out = []
        d = os.path.dirname(self.log_path)
        lg = logging.getLogger('kmip.server')
        for h in lg.handlers:
            try:
                h.flush()
            except Exception:
                pass
        if os.path.isdir(d):
            for n in sorted(os.listdir(d)):
                with open(os.path.join(d, n), errors='replace') as f:
                    out.append(f.read())
        return '\n'.join(out)

    # ------------------------------------------------------------------
    def accept(self, conn, address):
        """Hand a connection to the real service loop; returns the session
        object KmipServer created for it (None if it created none)."""
        n = len(self._accepted)
        self.listen_socket.queue.append((conn, address))
        self.server._is_serving = True
        self.server.serve()
        if len(self._accepted) > n:
            return self._accepted[-1]
        return None

    def session(self, ai):
        if ai not in self.sessions:
            a = self.actors[ai]
            cns = a.get('cns', [a['cn']])
            der = None if a.get('nocert') else net.make_certificate(
                cns, a.get('eku', ('client',)))
            conn = net.FakeConnection(der, name='c%d' % ai)
            s = self.accept(conn, ('10.0.0.%d' % (ai + 1), 5696))
            if s is None:
                raise RuntimeError('KmipServer created no session for '
                                   'connection %d' % ai)
            self.sessions[ai] = (s, conn)
        return self.sessions[ai]


class ServerWorld(ServerMixin, world.World):
    def __init__(self, actors, user_policies=None, policy_files=None,
                 server_opts=None, **kw):
        self.server_opts = server_opts or {}
        self.policy_files = dict(policy_files or {})
        if user_policies:
            self.policy_files.setdefault('user.json', user_policies)
        world.World.__init__(self, actors, None, **kw)


def server_threaded_world(*a, **kw):
    """ThreadedWorld whose engine and sessions are made by the real
    KmipServer (start() / serve() / _setup_connection_handler)."""
    from sim import threaded

    class ServerThreadedWorld(ServerMixin, threaded.ThreadedWorld):
        def __init__(self, *a2, **kw2):
            self.server_opts = kw2.pop('server_opts', None) or {}
            self.policy_files = dict(kw2.pop('policy_files', None) or {})
            up = kw2.get('user_policies')
            if up:
                self.policy_files.setdefault('user.json', up)
                kw2['user_policies'] = None
            threaded.ThreadedWorld.__init__(self, *a2, **kw2)

        def start_engine(self):
            ServerMixin.start_engine(self)
            self._install_busy_timeout()
    return ServerThreadedWorld(*a, **kw)
