"""
Wiring of the real client stack (ProxyKmipClient -> KMIPProxy ->
KMIPProtocol) onto the simulated transport. KMIPProxy.open() cannot run on
this interpreter (ssl.wrap_socket is gone), so the simulator installs the
socket and protocol objects that open() would have created.
"""
from sim import kernel, net

KV = None


def kmip_version(ver):
    from kmip.core import enums
    return {(1, 0): enums.KMIPVersion.KMIP_1_0,
            (1, 1): enums.KMIPVersion.KMIP_1_1,
            (1, 2): enums.KMIPVersion.KMIP_1_2,
            (1, 3): enums.KMIPVersion.KMIP_1_3,
            (1, 4): enums.KMIPVersion.KMIP_1_4,
            (2, 0): enums.KMIPVersion.KMIP_2_0}[tuple(ver)]


def make_client(responder, ver=(1, 2), **kw):
    """responder(frame) -> response bytes. Returns (client, socket). Extra
    keyword arguments (config_file, config, username, password ...) go to
    the ProxyKmipClient constructor."""
    kernel.install()
    from kmip.pie.client import ProxyKmipClient
    from kmip.services.kmip_protocol import KMIPProtocol
    c = ProxyKmipClient(kmip_version=kmip_version(ver), **kw)
    sock = net.ClientSocket(responder)
    c.proxy.socket = sock
    c.proxy.protocol = KMIPProtocol(sock)
    c._is_open = True
    return c, sock


def world_client(world, actor, ver=(1, 2), server_chunks=None, **kw):
    def responder(frame):
        sent = world.send_raw(actor, frame, server_chunks)
        return b''.join(sent)
    return make_client(responder, ver, **kw)
