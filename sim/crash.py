"""
Crash world helpers: the LD_PRELOAD shim (simulated disk under SQLite) and
fork-per-run execution where the child can be killed before any intercepted
libc call, with only what reached the file surviving.
"""
import ctypes
import json
import os
import sqlite3
import subprocess
import sys
import traceback

from sim import kernel

SHIM_SRC = os.path.join(kernel.HERE, 'shim', 'crashshim.c')
SHIM_SO = os.path.join(kernel.VERIF, 'build', 'crashshim.so')

KILL, ENOSPC, EIO = 1, 2, 3
MODE_NAME = {1: 'crash', 2: 'enospc', 3: 'eio'}


def ensure_built():
    if (not os.path.exists(SHIM_SO) or
            os.path.getmtime(SHIM_SO) < os.path.getmtime(SHIM_SRC)):
        os.makedirs(os.path.dirname(SHIM_SO), exist_ok=True)
        tmp = SHIM_SO + '.%d' % os.getpid()
        subprocess.check_call(['gcc', '-O2', '-shared', '-fPIC', '-o', tmp,
                               SHIM_SRC, '-ldl'])
        os.replace(tmp, SHIM_SO)
    return SHIM_SO


def reexec_with_shim():
    """Called from main.py before anything else is imported."""
    so = ensure_built()
    if so not in os.environ.get('LD_PRELOAD', ''):
        env = dict(os.environ)
        env['LD_PRELOAD'] = so
        env['VERIF_SHIM_MATCH'] = 'kmip.db'
        os.execve(sys.executable, [sys.executable] + sys.argv, env)


class Shim(object):
    def __init__(self):
        lib = ctypes.CDLL(None)
        if not hasattr(lib, 'verif_arm'):
            raise RuntimeError('crash shim is not preloaded')
        lib.verif_count.restype = ctypes.c_long
        lib.verif_arm.argtypes = [ctypes.c_long, ctypes.c_int]
        self.lib = lib

    def reset(self):
        self.lib.verif_reset()

    def counting(self, on=True):
        self.lib.verif_count_on(1 if on else 0)

    def arm(self, k, mode, sticky=False):
        self.lib.verif_reset()
        self.lib.verif_sticky(1 if sticky else 0)
        self.lib.verif_arm(k, mode)

    def count(self):
        return self.lib.verif_count()

    def fired(self):
        return bool(self.lib.verif_fired())


_SHIM = None


def shim():
    global _SHIM
    if _SHIM is None:
        _SHIM = Shim()
    return _SHIM


def run_child(fn):
    """Fork; the child runs fn(report) where report(obj) appends one JSON
    record to a pipe; returns (records, exit_code). exit_code 137 means the
    shim killed the child."""
    r, w = os.pipe()
    sys.stdout.flush()
    sys.stderr.flush()
    pid = os.fork()
    if pid == 0:
        code = 0
        try:
            os.close(r)

            def report(obj):
                os.write(w, (json.dumps(
                    obj, default=kernel._json_default) + '\n').encode())
            fn(report)
        except BaseException:
            code = 3
            try:
                os.write(w, (json.dumps(
                    {'child_error': traceback.format_exc()[-3000:]}) +
                    '\n').encode())
            except Exception:
                pass
        finally:
            os._exit(code)
    os.close(w)
    chunks = []
    while True:
        b = os.read(r, 65536)
        if not b:
            break
        chunks.append(b)
    os.close(r)
    _, status = os.waitpid(pid, 0)
    code = os.WEXITSTATUS(status) if os.WIFEXITED(status) else \
        -os.WTERMSIG(status)
    recs = []
    for line in b''.join(chunks).decode().splitlines():
        if line.strip():
            recs.append(json.loads(line))
    return recs, code


CHAIN = {
    'SymmetricKey': ['crypto_objects', 'keys', 'symmetric_keys'],
    'PublicKey': ['crypto_objects', 'keys', 'public_keys'],
    'PrivateKey': ['crypto_objects', 'keys', 'private_keys'],
    'SplitKey': ['crypto_objects', 'keys', 'split_keys'],
    'X509Certificate': ['crypto_objects', 'certificates',
                        'x509_certificates'],
    'SecretData': ['crypto_objects', 'secret_data_objects'],
    'OpaqueObject': ['opaque_objects'],
}


def raw_check(path):
    """integrity_check + every base row has the rows of its class chain."""
    problems = []
    con = sqlite3.connect(path)
    try:
        cur = con.cursor()
        ic = cur.execute('PRAGMA integrity_check').fetchall()
        if ic != [('ok',)]:
            problems.append('integrity_check: %r' % (ic[:3],))
        tables = set(r[0] for r in cur.execute(
            "select name from sqlite_master where type='table'"))
        if 'managed_objects' not in tables:
            return problems
        have = {}
        for chain in CHAIN.values():
            for tb in chain:
                if tb not in have and tb in tables:
                    have[tb] = set(r[0] for r in cur.execute(
                        'select uid from "%s"' % tb))
        for uid, cls in cur.execute(
                'select uid, class_type from managed_objects'):
            for tb in CHAIN.get(cls, []):
                if uid not in have.get(tb, ()):
                    problems.append('object %s (%s) has no row in %s'
                                    % (uid, cls, tb))
        if 'managed_object_names' in tables:
            uids = set(r[0] for r in cur.execute(
                'select uid from managed_objects'))
    finally:
        con.close()
    return problems
