"""
Wire monitors. envelope_problems() is the C02 oracle for one frame the
server emitted: independent TTLV parse + the response envelope rules.
"""
from sim import ttlv_ref as t
from sim.ttlv_ref import TAG


def split_frames(stream):
    """Apply the framing rule (8-byte header, 4-byte big-endian length at
    offset 4) to a byte stream. Returns (complete frames, leftover)."""
    out = []
    pos = 0
    n = len(stream)
    while n - pos >= 8:
        ln = int.from_bytes(stream[pos + 4:pos + 8], 'big')
        if n - pos - 8 < ln:
            break
        out.append(bytes(stream[pos:pos + 8 + ln]))
        pos += 8 + ln
    return out, bytes(stream[pos:])


def request_version(frame):
    """(major, minor) if the request header is readable by the
    independent reader, else None."""
    try:
        tree = t.parse(frame)
        hdr = tree.child(TAG['REQUEST_HEADER'])
        pv = hdr.child(TAG['PROTOCOL_VERSION'])
        return (pv.get(TAG['PROTOCOL_VERSION_MAJOR']),
                pv.get(TAG['PROTOCOL_VERSION_MINOR']))
    except Exception:
        return None


def envelope_problems(raw, request_frame=None, decodable=None,
                      t_in=None, t_out=None):
    """Problems (strings) with one response frame; [] if conformant."""
    probs = []
    try:
        tree = t.parse(raw)
    except t.TTLVError as e:
        return ['not well-formed TTLV: %s' % e]
    if tree.tag != TAG['RESPONSE_MESSAGE'] or tree.type != t.STRUCT:
        return ['top-level item is not a ResponseMessage structure']
    kids = tree.children()
    if not kids or kids[0].tag != TAG['RESPONSE_HEADER']:
        return ['first child is not a ResponseHeader']
    hdr = kids[0]
    pv = hdr.child(TAG['PROTOCOL_VERSION'])
    if pv is None or pv.child(TAG['PROTOCOL_VERSION_MAJOR']) is None or \
            pv.child(TAG['PROTOCOL_VERSION_MINOR']) is None:
        probs.append('header has no complete ProtocolVersion')
    ts = hdr.child(TAG['TIME_STAMP'])
    if ts is None or ts.type != t.DATETIME:
        probs.append('header has no TimeStamp')
    elif t_in is not None and not (int(t_in) - 1 <= ts.value <=
                                   int(t_out) + 1):
        probs.append('TimeStamp %s outside the request interval [%s, %s]'
                     % (ts.value, t_in, t_out))
    bc = hdr.child(TAG['BATCH_COUNT'])
    items = kids[1:]
    if any(k.tag != TAG['BATCH_ITEM'] for k in items):
        probs.append('non-BatchItem child after the header')
    items = [k for k in items if k.tag == TAG['BATCH_ITEM']]
    if bc is None or bc.type != t.INTEGER:
        probs.append('header has no BatchCount')
    elif bc.value != len(items):
        probs.append('BatchCount %d but %d batch items' % (bc.value,
                                                           len(items)))
    for i, it in enumerate(items):
        st = it.child(TAG['RESULT_STATUS'])
        if st is None or st.type != t.ENUM:
            probs.append('item %d has no ResultStatus' % i)
            continue
        has_r = it.child(TAG['RESULT_REASON']) is not None
        has_m = it.child(TAG['RESULT_MESSAGE']) is not None
        if st.value == 0:
            if has_r or has_m:
                probs.append('item %d: Success with reason/message' % i)
        else:
            if not has_r:
                probs.append('item %d: status %d without ResultReason'
                             % (i, st.value))
            if not has_m:
                probs.append('item %d: status %d without ResultMessage'
                             % (i, st.value))
        if st.value not in t.RESULT_STATUS:
            probs.append('item %d: undefined ResultStatus %d' % (i, st.value))
        rr = it.child(TAG['RESULT_REASON'])
        if rr is not None and rr.value not in t.RESULT_REASON:
            probs.append('item %d: undefined ResultReason %d' % (i, rr.value))
    if request_frame is not None and pv is not None and not probs:
        rv = request_version(request_frame)
        got = (pv.get(TAG['PROTOCOL_VERSION_MAJOR']),
               pv.get(TAG['PROTOCOL_VERSION_MINOR']))
        if rv is not None:
            if decodable and got != rv:
                probs.append('response version differs from the version of '
                             'the (decodable) request')
            elif not decodable and got not in (rv, (1, 0)):
                probs.append('response version differs from the version of '
                             'the undecodable request and is not 1.0')
    return probs
