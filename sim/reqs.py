"""
Requests as explicit JSON -> TTLV bytes (built with the independent encoder
from the KMIP message formats, not with kmip.core), and responses ->
plain dicts (read with the independent reader).

An op:   {"op": "Create", ...}           (see builders below)
A request: {"actor": 0, "ver": [1, 2], "items": [op, ...],
            "ids": "auto"|None|[hex|None, ...], "cont": 1|2|3|None,
            "order": bool|None, "maxresp": int|None, "async": bool|None,
            "ts": seconds-offset|None, "cred": [user, pass]|None}

Unique-identifier references: None = field omitted (ID placeholder),
"@label" = identifier produced by the op labelled `label` in this run
(resolved by the caller), anything else = literal text.
"""
from sim import ttlv_ref as t
from sim.ttlv_ref import TAG, S, I, E, T, B, D, L, BOOLEAN, Node

# attribute name -> (tag, kind); kinds: enum int text bool date struct-name
# struct-asi mask
ATTRS = {
    'Unique Identifier': (TAG['UNIQUE_IDENTIFIER'], 'text'),
    'Name': (TAG['NAME'], 'name'),
    'Object Type': (TAG['OBJECT_TYPE'], 'enum'),
    'Cryptographic Algorithm': (TAG['CRYPTOGRAPHIC_ALGORITHM'], 'enum'),
    'Cryptographic Length': (TAG['CRYPTOGRAPHIC_LENGTH'], 'int'),
    'Cryptographic Usage Mask': (TAG['CRYPTOGRAPHIC_USAGE_MASK'], 'int'),
    'Certificate Type': (TAG['CERTIFICATE_TYPE'], 'enum'),
    'Operation Policy Name': (TAG['OPERATION_POLICY_NAME'], 'text'),
    'State': (TAG['STATE'], 'enum'),
    'Initial Date': (TAG['INITIAL_DATE'], 'date'),
    'Activation Date': (TAG['ACTIVATION_DATE'], 'date'),
    'Object Group': (TAG['OBJECT_GROUP'], 'text'),
    'Application Specific Information':
        (TAG['APPLICATION_SPECIFIC_INFORMATION'], 'asi'),
    'Sensitive': (TAG['SENSITIVE'], 'bool'),
    'Contact Information': (0x420022, 'text'),
    'Process Start Date': (0x420067, 'date'),
    'Protect Stop Date': (0x420068, 'date'),
    'Deactivation Date': (0x42002F, 'date'),
    'Lease Time': (0x420049, 'interval'),
    'Fresh': (0x4200A8, 'bool'),
    'Always Sensitive': (0x420121, 'bool'),
    'Extractable': (0x420122, 'bool'),
    'Never Extractable': (0x420123, 'bool'),
    'Description': (0x4200FC, 'text'),
    'Comment': (0x4200FD, 'text'),
    'Cryptographic Parameters': (TAG['CRYPTOGRAPHIC_PARAMETERS'], 'cp'),
    'Link': (0x42004A, 'link'),
    'Digest': (0x420034, 'digest'),
    'Last Change Date': (0x420048, 'date'),
    'Destroy Date': (0x420033, 'date'),
    'Compromise Date': (0x420020, 'date'),
    'Archive Date': (0x420005, 'date'),
    'Original Creation Date': (0x4200BC, 'date'),
    'Random Number Generator': (0x4200DE, 'rng'),
    'PKCS#12 Friendly Name': (0x4200F7, 'text'),
    'Key Value Present': (0x4200BB, 'bool'),
    'Key Value Location': (0x4200B8, 'kvl'),
    'Certificate Length': (0x4200AD, 'int'),
    'Digital Signature Algorithm': (0x4200AE, 'enum'),
    'Usage Limits': (0x420095, 'ul'),
    'Revocation Reason': (TAG['REVOCATION_REASON'], 'rr'),
    'Cryptographic Domain Parameters': (0x420029, 'cdp'),
}
TAG_TO_ATTR = {}
for _n, (_tag, _k) in ATTRS.items():
    TAG_TO_ATTR.setdefault(_tag, _n)

CP_FIELDS = [  # CryptographicParameters, in specification order
    ('mode', TAG['BLOCK_CIPHER_MODE'], 'enum'),
    ('padding', TAG['PADDING_METHOD'], 'enum'),
    ('hash', TAG['HASHING_ALGORITHM'], 'enum'),
    ('role', 0x420083, 'enum'),
    ('dsa', TAG['DIGITAL_SIGNATURE_ALGORITHM'], 'enum'),
    ('alg', TAG['CRYPTOGRAPHIC_ALGORITHM'], 'enum'),
    ('random_iv', 0x4200C5, 'bool'),
    ('iv_len', 0x4200CD, 'int'),
    ('tag_len', 0x4200CE, 'int'),
    ('fixed_len', 0x4200CF, 'int'),
    ('invoc_len', 0x4200D2, 'int'),
    ('counter_len', 0x4200D0, 'int'),
    ('init_counter', 0x4200D1, 'int'),
]


def hx(v):
    if v is None:
        return None
    if isinstance(v, (bytes, bytearray)):
        return bytes(v)
    if v.startswith('rep:'):
        # 'rep:<hex>:<n>': the byte pattern repeated to n bytes (keeps
        # plans with megabyte values small)
        _, pat, n = v.split(':')
        pat = bytes.fromhex(pat)
        return (pat * (int(n) // len(pat) + 1))[:int(n)]
    return bytes.fromhex(v)


def _value_node(tag, kind, v):
    if kind == 'enum':
        return E(tag, v)
    if kind == 'int':
        return I(tag, v)
    if kind == 'text':
        return T(tag, v)
    if kind == 'bool':
        return BOOLEAN(tag, v)
    if kind == 'date':
        return D(tag, v)
    if kind == 'interval':
        return Node(tag, t.INTERVAL, v)
    if kind == 'name':
        if isinstance(v, str):
            v = [v, 1]
        return S(tag, T(TAG['NAME_VALUE'], v[0]), E(TAG['NAME_TYPE'], v[1]))
    if kind == 'asi':
        return S(tag, T(TAG['APPLICATION_NAMESPACE'], v[0]),
                 T(TAG['APPLICATION_DATA'], v[1]))
    if kind == 'cp':
        return cp_node(v, tag)
    if kind == 'link':
        return S(tag, E(0x42004B, v[0]), T(0x42004C, v[1]))
    if kind == 'bytes':
        return B(tag, hx(v))
    raise ValueError('no encoding for attribute kind %r' % kind)


def cp_node(cp, tag=TAG['CRYPTOGRAPHIC_PARAMETERS']):
    if cp is None:
        return None
    kids = []
    for key, ftag, kind in CP_FIELDS:
        if cp.get(key) is not None:
            kids.append(_value_node(ftag, kind, cp[key]))
    return S(tag, *kids)


def attr_kind(name, explicit=None):
    if explicit:
        return explicit
    if name in ATTRS:
        return ATTRS[name][1]
    return 'text'


def attr_v1(a):
    """KMIP 1.x Attribute structure. a = {"n": name, "v": value,
    "i": index|None, "k": kind override}"""
    name = a['n']
    kids = [T(TAG['ATTRIBUTE_NAME'], name)]
    if a.get('i') is not None:
        kids.append(I(TAG['ATTRIBUTE_INDEX'], a['i']))
    if 'v' in a:
        kids.append(_value_node(TAG['ATTRIBUTE_VALUE'],
                                attr_kind(name, a.get('k')), a['v']))
    return S(TAG['ATTRIBUTE'], *kids)


def attr_v2(a):
    """KMIP 2.0: the attribute value under its own tag."""
    name = a['n']
    if name in ATTRS:
        tag, kind = ATTRS[name]
    else:
        # vendor (custom) attribute: KMIP 2.0 Attribute structure
        return S(TAG['ATTRIBUTE'], T(TAG['VENDOR_IDENTIFICATION'], 'x'),
                 T(TAG['ATTRIBUTE_NAME'], name),
                 _value_node(TAG['ATTRIBUTE_VALUE'], a.get('k') or 'text',
                             a.get('v', '')))
    return _value_node(tag, a.get('k') or kind, a['v'])


def attrs_block(attrs, ver, tag1, tag2):
    """TemplateAttribute-like container (1.x) or Attributes-like (2.0)."""
    if attrs is None:
        return None
    if ver >= (2, 0):
        return S(tag2, *[attr_v2(a) for a in attrs])
    return S(tag1, *[attr_v1(a) for a in attrs])


def uid_node(uid, resolve):
    if uid is None:
        return None
    return T(TAG['UNIQUE_IDENTIFIER'], resolve(uid))


def key_block(o, resolve):
    kids = [E(TAG['KEY_FORMAT_TYPE'], o.get('kft', 1))]
    if o.get('kct') is not None:
        kids.append(E(TAG['KEY_COMPRESSION_TYPE'], o['kct']))
    w = o.get('wrap')
    if w is not None:
        kids.append(B(TAG['KEY_VALUE'], hx(o.get('value', ''))))
    else:
        if o.get('km_struct'):
            # transparent key: Key Material is a structure
            kv = [S(TAG['KEY_MATERIAL'], B(0x42003F, hx(o.get('value',
                                                               ''))))]
        else:
            kv = [B(TAG['KEY_MATERIAL'], hx(o.get('value', '')))]
        for a in o.get('kv_attrs', []):
            kv.append(attr_v1(a))
        kids.append(S(TAG['KEY_VALUE'], *kv))
    if o.get('alg') is not None:
        kids.append(E(TAG['CRYPTOGRAPHIC_ALGORITHM'], o['alg']))
    if o.get('len') is not None:
        kids.append(I(TAG['CRYPTOGRAPHIC_LENGTH'], o['len']))
    if w is not None:
        kids.append(wrapping_data(w, resolve))
    return S(TAG['KEY_BLOCK'], *kids)


def key_info(tag, ki, resolve):
    if ki is None:
        return None
    uid = resolve(ki['uid'])
    if ki.get('pad8') and isinstance(uid, str) and uid.isdigit():
        # the same object under a spelling of 8 characters (a text string
        # that fills its 8-byte block exactly and is echoed in the answer)
        uid = uid.zfill(8)
    return S(tag, T(TAG['UNIQUE_IDENTIFIER'], uid),
             cp_node(ki.get('cp')))


def wrapping_data(w, resolve):
    return S(TAG['KEY_WRAPPING_DATA'],
             E(TAG['WRAPPING_METHOD'], w.get('method', 1)),
             key_info(TAG['ENCRYPTION_KEY_INFORMATION'], w.get('enc'),
                      resolve),
             key_info(TAG['MAC_SIGNATURE_KEY_INFORMATION'], w.get('mac'),
                      resolve),
             B(TAG['MAC_SIGNATURE'], hx(w['sig']))
             if w.get('sig') is not None else None,
             B(TAG['IV_COUNTER_NONCE'], hx(w['iv']))
             if w.get('iv') is not None else None,
             E(TAG['ENCODING_OPTION'], w['encoding'])
             if w.get('encoding') is not None else None)


OBJ_TAG = {'SymmetricKey': TAG['SYMMETRIC_KEY'],
           'PublicKey': TAG['PUBLIC_KEY'], 'PrivateKey': TAG['PRIVATE_KEY'],
           'SplitKey': TAG['SPLIT_KEY'], 'Certificate': TAG['CERTIFICATE'],
           'SecretData': TAG['SECRET_DATA'],
           'OpaqueData': TAG['OPAQUE_OBJECT'], 'Template': 0x420090}


def managed_object(otype, o, resolve):
    if o is None:
        return None
    if otype in ('SymmetricKey', 'PublicKey', 'PrivateKey'):
        return S(OBJ_TAG[otype], key_block(o, resolve))
    if otype == 'SplitKey':
        return S(OBJ_TAG[otype],
                 I(TAG['SPLIT_KEY_PARTS'], o.get('parts', 2)),
                 I(TAG['KEY_PART_IDENTIFIER'], o.get('part_id', 1)),
                 I(TAG['SPLIT_KEY_THRESHOLD'], o.get('threshold', 2)),
                 E(TAG['SPLIT_KEY_METHOD'], o.get('method', 1)),
                 Node(TAG['PRIME_FIELD_SIZE'], t.BIGINT, o['prime'])
                 if o.get('prime') is not None else None,
                 key_block(o, resolve))
    if otype == 'Certificate':
        return S(OBJ_TAG[otype], E(TAG['CERTIFICATE_TYPE'], o.get('ctype', 1)),
                 B(TAG['CERTIFICATE_VALUE'], hx(o.get('value', ''))))
    if otype == 'SecretData':
        oo = dict(o)
        oo.setdefault('kft', 2)
        return S(OBJ_TAG[otype],
                 E(TAG['SECRET_DATA_TYPE'], o.get('sdtype', 1)),
                 key_block(oo, resolve))
    if otype == 'OpaqueData':
        return S(OBJ_TAG[otype],
                 E(TAG['OPAQUE_DATA_TYPE'], o.get('odtype', 0x80000000)),
                 B(TAG['OPAQUE_DATA_VALUE'], hx(o.get('value', ''))))
    if otype == 'Template':
        return S(OBJ_TAG[otype], *[attr_v1(a) for a in o.get('attrs', [])])
    raise ValueError(otype)


def payload(op, ver, resolve):
    """Children of the RequestPayload structure for one op."""
    name = op['op']
    P = []

    def add(n):
        if n is not None:
            P.append(n)

    if name == 'Create':
        add(E(TAG['OBJECT_TYPE'], t.OT[op.get('otype', 'SymmetricKey')]))
        add(attrs_block(op.get('attrs', []), ver, TAG['TEMPLATE_ATTRIBUTE'],
                        TAG['ATTRIBUTES']))
    elif name == 'CreateKeyPair':
        add(attrs_block(op.get('common'), ver,
                        TAG['COMMON_TEMPLATE_ATTRIBUTE'],
                        TAG['COMMON_ATTRIBUTES']))
        add(attrs_block(op.get('private'), ver,
                        TAG['PRIVATE_KEY_TEMPLATE_ATTRIBUTE'],
                        TAG['PRIVATE_KEY_ATTRIBUTES']))
        add(attrs_block(op.get('public'), ver,
                        TAG['PUBLIC_KEY_TEMPLATE_ATTRIBUTE'],
                        TAG['PUBLIC_KEY_ATTRIBUTES']))
    elif name == 'Register':
        add(E(TAG['OBJECT_TYPE'], t.OT[op['otype']]))
        add(attrs_block(op.get('attrs', []), ver, TAG['TEMPLATE_ATTRIBUTE'],
                        TAG['ATTRIBUTES']))
        add(managed_object(op.get('obj_type', op['otype']), op.get('obj'),
                           resolve))
    elif name == 'DeriveKey':
        add(E(TAG['OBJECT_TYPE'], t.OT[op.get('otype', 'SymmetricKey')]))
        for u in op.get('uids', []):
            add(T(TAG['UNIQUE_IDENTIFIER'], resolve(u)))
        add(E(TAG['DERIVATION_METHOD'], op.get('method', 1)))
        dp = op.get('params', {})
        add(S(TAG['DERIVATION_PARAMETERS'],
              cp_node(dp.get('cp')),
              B(TAG['INITIALIZATION_VECTOR'], hx(dp['iv']))
              if dp.get('iv') is not None else None,
              B(TAG['DERIVATION_DATA'], hx(dp['data']))
              if dp.get('data') is not None else None,
              B(TAG['SALT'], hx(dp['salt']))
              if dp.get('salt') is not None else None,
              I(TAG['ITERATION_COUNT'], dp['iter'])
              if dp.get('iter') is not None else None))
        add(attrs_block(op.get('attrs', []), ver, TAG['TEMPLATE_ATTRIBUTE'],
                        TAG['ATTRIBUTES']))
    elif name == 'Locate':
        if op.get('max') is not None:
            add(I(TAG['MAXIMUM_ITEMS'], op['max']))
        if op.get('offset') is not None:
            add(I(TAG['OFFSET_ITEMS'], op['offset']))
        if op.get('storage') is not None:
            add(I(TAG['STORAGE_STATUS_MASK'], op['storage']))
        if op.get('group_member') is not None:
            add(E(0x4200AC, op['group_member']))
        if ver >= (2, 0):
            add(S(TAG['ATTRIBUTES'], *[attr_v2(a)
                                       for a in op.get('attrs', [])]))
        else:
            for a in op.get('attrs', []):
                add(attr_v1(a))
    elif name == 'Get':
        add(uid_node(op.get('uid'), resolve))
        if op.get('kft') is not None:
            add(E(TAG['KEY_FORMAT_TYPE'], op['kft']))
        if op.get('kwt') is not None:
            add(E(TAG['KEY_WRAP_TYPE'], op['kwt']))
        if op.get('kct') is not None:
            add(E(TAG['KEY_COMPRESSION_TYPE'], op['kct']))
        w = op.get('wrapspec')
        if w is not None:
            kids = [E(TAG['WRAPPING_METHOD'], w.get('method', 1)),
                    key_info(TAG['ENCRYPTION_KEY_INFORMATION'], w.get('enc'),
                             resolve),
                    key_info(TAG['MAC_SIGNATURE_KEY_INFORMATION'],
                             w.get('mac'), resolve)]
            for n in w.get('attr_names', []):
                kids.append(T(TAG['ATTRIBUTE_NAME'], n))
            if w.get('encoding') is not None:
                kids.append(E(TAG['ENCODING_OPTION'], w['encoding']))
            add(S(TAG['KEY_WRAPPING_SPECIFICATION'], *kids))
    elif name == 'GetAttributes':
        add(uid_node(op.get('uid'), resolve))
        for n in op.get('names', []) or []:
            if ver >= (2, 0):
                if n in ATTRS:
                    add(E(TAG['ATTRIBUTE_REFERENCE'], ATTRS[n][0]))
                else:
                    add(S(TAG['ATTRIBUTE_REFERENCE'],
                          T(TAG['VENDOR_IDENTIFICATION'], 'x'),
                          T(TAG['ATTRIBUTE_NAME'], n)))
            else:
                add(T(TAG['ATTRIBUTE_NAME'], n))
    elif name in ('GetAttributeList', 'Activate', 'Destroy'):
        add(uid_node(op.get('uid'), resolve))
    elif name == 'Revoke':
        add(uid_node(op.get('uid'), resolve))
        if op.get('code', 1) is not None or op.get('msg') is not None:
            add(S(TAG['REVOCATION_REASON'],
                  E(TAG['REVOCATION_REASON_CODE'], op.get('code', 1))
                  if op.get('code', 1) is not None else None,
                  T(TAG['REVOCATION_MESSAGE'], op['msg'])
                  if op.get('msg') is not None else None))
        if op.get('date') is not None:
            add(D(TAG['COMPROMISE_OCCURRENCE_DATE'], op['date']))
    elif name == 'Query':
        for f in op.get('funcs', [1]):
            add(E(TAG['QUERY_FUNCTION'], f))
    elif name == 'DiscoverVersions':
        for mj, mn in op.get('versions', []):
            add(S(TAG['PROTOCOL_VERSION'],
                  I(TAG['PROTOCOL_VERSION_MAJOR'], mj),
                  I(TAG['PROTOCOL_VERSION_MINOR'], mn)))
    elif name in ('Encrypt', 'Decrypt'):
        add(uid_node(op.get('uid'), resolve))
        add(cp_node(op.get('cp')))
        if op.get('data') is not None:
            add(B(TAG['DATA'], hx(op['data'])))
        if op.get('iv') is not None:
            add(B(TAG['IV_COUNTER_NONCE'], hx(op['iv'])))
        if op.get('aad') is not None:
            add(B(TAG['AUTHENTICATED_ENCRYPTION_ADDITIONAL_DATA'],
                  hx(op['aad'])))
        if name == 'Decrypt' and op.get('tag') is not None:
            add(B(TAG['AUTHENTICATED_ENCRYPTION_TAG'], hx(op['tag'])))
    elif name in ('Sign', 'MAC'):
        add(uid_node(op.get('uid'), resolve))
        add(cp_node(op.get('cp')))
        if op.get('data') is not None:
            add(B(TAG['DATA'], hx(op['data'])))
    elif name == 'SignatureVerify':
        add(uid_node(op.get('uid'), resolve))
        add(cp_node(op.get('cp')))
        if op.get('data') is not None:
            add(B(TAG['DATA'], hx(op['data'])))
        if op.get('sig') is not None:
            add(B(TAG['SIGNATURE_DATA'], hx(op['sig'])))
    elif name == 'SetAttribute':
        add(uid_node(op.get('uid'), resolve))
        if op.get('new') is not None:
            add(S(TAG['NEW_ATTRIBUTE'], attr_v2(op['new'])))
    elif name == 'ModifyAttribute':
        add(uid_node(op.get('uid'), resolve))
        if ver >= (2, 0):
            if op.get('cur') is not None:
                add(S(TAG['CURRENT_ATTRIBUTE'], attr_v2(op['cur'])))
            if op.get('new') is not None:
                add(S(TAG['NEW_ATTRIBUTE'], attr_v2(op['new'])))
        else:
            if op.get('attr') is not None:
                add(attr_v1(op['attr']))
    elif name == 'DeleteAttribute':
        add(uid_node(op.get('uid'), resolve))
        if ver >= (2, 0):
            if op.get('cur') is not None:
                add(S(TAG['CURRENT_ATTRIBUTE'], attr_v2(op['cur'])))
            if op.get('ref') is not None:
                add(S(TAG['ATTRIBUTE_REFERENCE'],
                      T(TAG['VENDOR_IDENTIFICATION'], op.get('vendor', 'x')),
                      T(TAG['ATTRIBUTE_NAME'], op['ref'])))
        else:
            if op.get('name') is not None:
                add(T(TAG['ATTRIBUTE_NAME'], op['name']))
            if op.get('index') is not None:
                add(I(TAG['ATTRIBUTE_INDEX'], op['index']))
    elif name in ('Rekey', 'Check', 'ObtainLease', 'GetUsageAllocation',
                  'Archive', 'Recover', 'Cancel', 'Poll', 'RekeyKeyPair',
                  'Certify', 'Recertify', 'Validate', 'AddAttribute'):
        # operations the codec knows (or not) but the engine does not serve
        add(uid_node(op.get('uid'), resolve))
    else:
        raise ValueError('unknown op %r' % name)
    return P


def identity(x):
    return x


def build_request(req, resolve=identity, now=None):
    ver = tuple(req.get('ver', (1, 2)))
    items = req['items']
    ids = req.get('ids', 'auto')
    if ids == 'auto':
        ids = [('%02x' % (i + 1)) for i in range(len(items))] \
            if len(items) > 1 else [None]
    elif ids is None:
        ids = [None] * len(items)
    H = [S(TAG['PROTOCOL_VERSION'],
           I(TAG['PROTOCOL_VERSION_MAJOR'], ver[0]),
           I(TAG['PROTOCOL_VERSION_MINOR'], ver[1]))]
    if req.get('maxresp') is not None:
        H.append(I(TAG['MAXIMUM_RESPONSE_SIZE'], req['maxresp']))
    if req.get('async') is not None:
        H.append(BOOLEAN(TAG['ASYNCHRONOUS_INDICATOR'], req['async']))
    if req.get('cred') is not None:
        creds = req['cred']
        if creds and not isinstance(creds[0], (list, tuple, dict)):
            creds = [creds]
        nodes = []
        for c in creds:
            if isinstance(c, dict):
                # device credential (KMIP 1.1): serial, password, device /
                # network / machine / media identifier, all optional
                kids = []
                for key, tag in (('serial', 0x4200B0), ('password', 0x4200A1),
                                 ('device', 0x4200A2), ('network', 0x4200AB),
                                 ('machine', 0x4200A9), ('media', 0x4200AA)):
                    if c.get(key) is not None:
                        kids.append(T(tag, c[key]))
                nodes.append(S(TAG['CREDENTIAL'],
                               E(TAG['CREDENTIAL_TYPE'], 2),
                               S(TAG['CREDENTIAL_VALUE'], *kids)))
            else:
                user, pw = c
                nodes.append(S(
                    TAG['CREDENTIAL'], E(TAG['CREDENTIAL_TYPE'], 1),
                    S(TAG['CREDENTIAL_VALUE'], T(TAG['USERNAME'], user),
                      T(TAG['PASSWORD'], pw) if pw is not None else None)))
        H.append(S(TAG['AUTHENTICATION'], *nodes))
    if req.get('cont') is not None:
        H.append(E(TAG['BATCH_ERROR_CONTINUATION_OPTION'], req['cont']))
    if req.get('order') is not None:
        H.append(BOOLEAN(TAG['BATCH_ORDER_OPTION'], req['order']))
    if req.get('ts') is not None:
        H.append(D(TAG['TIME_STAMP'], int((now or 0) + req['ts'])))
    H.append(I(TAG['BATCH_COUNT'],
               req.get('count', len(items))))
    msg = [S(TAG['REQUEST_HEADER'], *H)]
    for op, bid in zip(items, ids):
        opnum = op.get('opnum', t.OP.get(op['op']))
        kids = [E(TAG['OPERATION'], opnum)]
        if bid is not None:
            kids.append(B(TAG['UNIQUE_BATCH_ITEM_ID'], hx(bid)))
        kids.append(S(TAG['REQUEST_PAYLOAD'], *payload(op, ver, resolve)))
        msg.append(S(TAG['BATCH_ITEM'], *kids))
    return t.encode(S(TAG['REQUEST_MESSAGE'], *msg))


# ---------------------------------------------------------------------------
# responses

def _attr_plain(node):
    """Attribute value node -> JSON-able value."""
    if node.type == t.STRUCT:
        if node.tag in (TAG['NAME'],) or node.child(TAG['NAME_VALUE']):
            return [node.get(TAG['NAME_VALUE']), node.get(TAG['NAME_TYPE'])]
        if node.child(TAG['APPLICATION_NAMESPACE']) is not None:
            return [node.get(TAG['APPLICATION_NAMESPACE']),
                    node.get(TAG['APPLICATION_DATA'])]
        return node.to_plain()
    if isinstance(node.value, bytes):
        return node.value.hex()
    return node.value


def read_attributes(pl):
    """All attributes in a payload node, as [(name, index, value)], for
    both the 1.x Attribute form and the 2.0 Attributes form."""
    out = []
    for a in pl.children(TAG['ATTRIBUTE']):
        v = a.child(TAG['ATTRIBUTE_VALUE'])
        out.append((a.get(TAG['ATTRIBUTE_NAME']),
                    a.get(TAG['ATTRIBUTE_INDEX'], 0),
                    None if v is None else _attr_plain(v)))
    block = pl.child(TAG['ATTRIBUTES'])
    if block is not None:
        counts = {}
        for c in block.children():
            n = TAG_TO_ATTR.get(c.tag, hex(c.tag))
            i = counts.get(n, 0)
            counts[n] = i + 1
            out.append((n, i, _attr_plain(c)))
    return out


def read_key_block(kb):
    if kb is None:
        return None
    out = {'kft': kb.get(TAG['KEY_FORMAT_TYPE'])}
    kv = kb.child(TAG['KEY_VALUE'])
    if kv is not None:
        if kv.type == t.STRUCT:
            km = kv.child(TAG['KEY_MATERIAL'])
            out['value'] = None if km is None else (
                km.value.hex() if isinstance(km.value, bytes)
                else km.to_plain())
            kva = read_attributes(kv)
            if kva:
                out['kv_attrs'] = kva
        else:
            out['value'] = kv.value.hex()
            out['wrapped_bytes'] = True
    if kb.child(TAG['KEY_COMPRESSION_TYPE']) is not None:
        out['kct'] = kb.get(TAG['KEY_COMPRESSION_TYPE'])
    out['alg'] = kb.get(TAG['CRYPTOGRAPHIC_ALGORITHM'])
    out['len'] = kb.get(TAG['CRYPTOGRAPHIC_LENGTH'])
    w = kb.child(TAG['KEY_WRAPPING_DATA'])
    if w is not None:
        out['wrap'] = read_wrapping(w)
    return out


def _read_cp(n):
    if n is None:
        return None
    out = {}
    for key, ftag, kind in CP_FIELDS:
        if n.child(ftag) is not None:
            out[key] = n.get(ftag)
    return out


def _read_key_info(n):
    if n is None:
        return None
    out = {'uid': n.get(TAG['UNIQUE_IDENTIFIER'])}
    cp = _read_cp(n.child(TAG['CRYPTOGRAPHIC_PARAMETERS']))
    if cp is not None:
        out['cp'] = cp
    return out


def read_wrapping(w):
    out = {'method': w.get(TAG['WRAPPING_METHOD'])}
    for key, tag in (('enc', TAG['ENCRYPTION_KEY_INFORMATION']),
                     ('mac', TAG['MAC_SIGNATURE_KEY_INFORMATION'])):
        ki = _read_key_info(w.child(tag))
        if ki is not None:
            out[key] = ki
    for key, tag in (('sig', TAG['MAC_SIGNATURE']),
                     ('iv', TAG['IV_COUNTER_NONCE'])):
        if w.child(tag) is not None:
            out[key] = w.get(tag).hex()
    if w.child(TAG['ENCODING_OPTION']) is not None:
        out['encoding'] = w.get(TAG['ENCODING_OPTION'])
    return out


def read_object(pl):
    """The managed object inside a Get response payload -> dict."""
    for otype, tag in OBJ_TAG.items():
        n = pl.child(tag)
        if n is None:
            continue
        out = {'otype': otype}
        if otype in ('SymmetricKey', 'PublicKey', 'PrivateKey'):
            out.update(read_key_block(n.child(TAG['KEY_BLOCK'])) or {})
        elif otype == 'SplitKey':
            out.update(read_key_block(n.child(TAG['KEY_BLOCK'])) or {})
            out['parts'] = n.get(TAG['SPLIT_KEY_PARTS'])
            out['part_id'] = n.get(TAG['KEY_PART_IDENTIFIER'])
            out['threshold'] = n.get(TAG['SPLIT_KEY_THRESHOLD'])
            out['method'] = n.get(TAG['SPLIT_KEY_METHOD'])
            out['prime'] = n.get(TAG['PRIME_FIELD_SIZE'])
        elif otype == 'Certificate':
            out['ctype'] = n.get(TAG['CERTIFICATE_TYPE'])
            out['value'] = n.get(TAG['CERTIFICATE_VALUE'], b'').hex()
        elif otype == 'SecretData':
            out['sdtype'] = n.get(TAG['SECRET_DATA_TYPE'])
            out.update(read_key_block(n.child(TAG['KEY_BLOCK'])) or {})
        elif otype == 'OpaqueData':
            out['odtype'] = n.get(TAG['OPAQUE_DATA_TYPE'])
            out['value'] = n.get(TAG['OPAQUE_DATA_VALUE'], b'').hex()
        return out
    return None


def read_payload(opnum, pl):
    """Response payload -> small dict with what the oracles compare."""
    out = {}
    if pl is None:
        return out
    uids = [c.value for c in pl.children(TAG['UNIQUE_IDENTIFIER'])]
    if uids:
        out['uids'] = uids
    name = t.OPERATION.get(opnum)
    if name == 'CreateKeyPair':
        out['private_uid'] = pl.get(TAG['PRIVATE_KEY_UNIQUE_IDENTIFIER'])
        out['public_uid'] = pl.get(TAG['PUBLIC_KEY_UNIQUE_IDENTIFIER'])
    elif name == 'Get':
        out['otype'] = pl.get(TAG['OBJECT_TYPE'])
        out['object'] = read_object(pl)
    elif name in ('GetAttributes', 'ModifyAttribute', 'DeleteAttribute'):
        out['attrs'] = read_attributes(pl)
    elif name == 'GetAttributeList':
        names = [c.value for c in pl.children(TAG['ATTRIBUTE_NAME'])]
        for c in pl.children(TAG['ATTRIBUTE_REFERENCE']):
            if c.type == t.ENUM:
                names.append(TAG_TO_ATTR.get(c.value, hex(c.value)))
            else:
                names.append(c.get(TAG['ATTRIBUTE_NAME']))
        out['names'] = names
    elif name == 'Query':
        out['operations'] = [c.value for c in pl.children(TAG['OPERATION'])]
        out['vendor'] = pl.get(TAG['VENDOR_IDENTIFICATION'])
    elif name == 'DiscoverVersions':
        out['versions'] = [
            (c.get(TAG['PROTOCOL_VERSION_MAJOR']),
             c.get(TAG['PROTOCOL_VERSION_MINOR']))
            for c in pl.children(TAG['PROTOCOL_VERSION'])]
    elif name == 'Locate':
        out['located'] = pl.get(TAG['LOCATED_ITEMS'])
    elif name in ('Encrypt', 'Decrypt'):
        for key, tag in (('data', 'DATA'), ('iv', 'IV_COUNTER_NONCE'),
                         ('tag', 'AUTHENTICATED_ENCRYPTION_TAG')):
            v = pl.get(TAG[tag])
            if v is not None:
                out[key] = v.hex()
    elif name == 'Sign':
        v = pl.get(TAG['SIGNATURE_DATA'])
        out['sig'] = None if v is None else v.hex()
    elif name == 'SignatureVerify':
        out['validity'] = pl.get(TAG['VALIDITY_INDICATOR'])
    elif name == 'MAC':
        v = pl.get(TAG['MAC_DATA'])
        out['mac'] = None if v is None else v.hex()
    elif name == 'Create':
        out['otype'] = pl.get(TAG['OBJECT_TYPE'])
    return out


class Response(object):
    def __init__(self, raw):
        self.raw = raw
        self.tree = t.parse(raw)
        hdr = self.tree.child(TAG['RESPONSE_HEADER'])
        self.header = hdr
        pv = hdr.child(TAG['PROTOCOL_VERSION']) if hdr else None
        self.version = None if pv is None else (
            pv.get(TAG['PROTOCOL_VERSION_MAJOR']),
            pv.get(TAG['PROTOCOL_VERSION_MINOR']))
        self.time_stamp = None if hdr is None else hdr.get(TAG['TIME_STAMP'])
        self.batch_count = None if hdr is None else \
            hdr.get(TAG['BATCH_COUNT'])
        self.items = []
        for bi in self.tree.children(TAG['BATCH_ITEM']):
            opnum = bi.get(TAG['OPERATION'])
            bid = bi.get(TAG['UNIQUE_BATCH_ITEM_ID'])
            item = {
                'op': opnum,
                'opname': t.OPERATION.get(opnum),
                'id': None if bid is None else bid.hex(),
                'status': bi.get(TAG['RESULT_STATUS']),
                'reason': bi.get(TAG['RESULT_REASON']),
                'reason_name': t.RESULT_REASON.get(bi.get(TAG['RESULT_REASON'])),
                'message': bi.get(TAG['RESULT_MESSAGE']),
                'payload': read_payload(
                    opnum, bi.child(TAG['RESPONSE_PAYLOAD'])),
                'has_payload': bi.child(TAG['RESPONSE_PAYLOAD']) is not None,
            }
            self.items.append(item)

    def plain(self, with_time=False):
        d = {'version': self.version, 'count': self.batch_count,
             'items': self.items}
        if with_time:
            d['ts'] = self.time_stamp
        return d

    def ok(self, i=0):
        return len(self.items) > i and self.items[i]['status'] == 0
