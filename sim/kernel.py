"""
Simulation kernel: seed derivation, simulated clock, simulated entropy,
RSA key pool, log capture, and installation of the seams into the `kmip`
modules (module attributes that the code looks up at call time).

Nothing here draws from a PRNG except SimRng (seeded from the plan) and
nothing reads the real clock.
"""
import hashlib
import json
import logging
import os
import random
import sys
import time as _real_time

HERE = os.path.dirname(os.path.abspath(__file__))
VERIF = os.path.dirname(HERE)
REPO = os.environ.get('VERIF_REPO', '/repo')


def derive_seed(base, prop, index):
    h = hashlib.sha256(('%d/%s/%d' % (base, prop, index)).encode()).digest()
    return int.from_bytes(h[:8], 'big')


def digest_of(obj):
    return hashlib.sha256(
        json.dumps(obj, sort_keys=True, default=_json_default).encode()
    ).hexdigest()[:16]


def _json_default(o):
    if isinstance(o, (bytes, bytearray)):
        return bytes(o).hex()
    if isinstance(o, (set, frozenset)):
        return sorted(o)
    return repr(o)


# ---------------------------------------------------------------------------
class SimClock(object):
    """The only clock the system reads. Discrete: advances only when the
    plan says so (inline world) or when the scheduler jumps to the next
    timer (threaded world)."""

    EPOCH = 1600000000.0

    def __init__(self, start=None):
        self.now = self.EPOCH if start is None else float(start)
        self.t0 = self.now
        self.reads = 0
        self.sleeper = None   # scheduler hook for sleep()

    def time(self):
        self.reads += 1
        return self.now

    def advance(self, dt):
        self.now += dt

    def set(self, t):
        self.now = float(t)

    def sleep(self, dt):
        if self.sleeper is not None:
            self.sleeper(dt)
        else:
            self.now += dt

    def covered(self):
        return max(0.0, self.now - self.t0)


class _TimeModule(object):
    """Stands in for the `time` module inside kmip modules."""

    def __init__(self):
        self.clock = SimClock()

    def time(self):
        return self.clock.time()

    def sleep(self, dt):
        return self.clock.sleep(dt)

    def __getattr__(self, name):     # gmtime, strftime, asctime, mktime ...
        return getattr(_real_time, name)


class SimRng(object):
    def __init__(self, seed=0):
        self.r = random.Random(seed)
        self.calls = 0
        self.rsa_counter = 0

    def urandom(self, n):
        self.calls += 1
        return bytes(self.r.getrandbits(8) for _ in range(n))


class _OsModule(object):
    def __init__(self):
        self.rng = SimRng(0)

    def urandom(self, n):
        return self.rng.urandom(n)

    def __getattr__(self, name):
        return getattr(os, name)


TIME = _TimeModule()
OS = _OsModule()

_POOL = None
_POOL_KEYS = {}


def rsa_pool():
    global _POOL
    if _POOL is None:
        with open(os.path.join(HERE, 'data', 'rsa_pool.json')) as f:
            _POOL = json.load(f)
    return _POOL


def pool_private_key(size, index):
    from cryptography.hazmat.primitives import serialization
    ders = rsa_pool()[str(size)]
    k = (size, index % len(ders))
    if k not in _POOL_KEYS:
        _POOL_KEYS[k] = serialization.load_der_private_key(
            bytes.fromhex(ders[k[1]]), password=None)
    return _POOL_KEYS[k]


class _RsaModule(object):
    """Replaces `rsa` inside kmip.services.server.crypto.engine: key
    generation goes through OpenSSL's RNG, which cannot be seeded, so
    generate_private_key hands out pre-generated keys in a deterministic
    order. Everything else is the real module."""

    def __init__(self, real):
        self._real = real
        self.stub_calls = 0

    def generate_private_key(self, public_exponent, key_size, backend=None):
        pool = rsa_pool()
        if str(key_size) in pool and public_exponent == 65537:
            self.stub_calls += 1
            idx = OS.rng.rsa_counter
            OS.rng.rsa_counter += 1
            return pool_private_key(key_size, idx)
        if key_size >= 512 and public_exponent == 65537:
            # a size the pool does not hold (a corrupted or boundary
            # length that is still a legal RSA size): real generation is
            # not repeatable and, for large sizes, takes minutes; a pool
            # key of the nearest size stands in (nothing in the checks
            # depends on the modulus size of a generated key)
            self.stub_calls += 1
            idx = OS.rng.rsa_counter
            OS.rng.rsa_counter += 1
            return pool_private_key(2048 if key_size >= 1536 else 1024, idx)
        return self._real.generate_private_key(
            public_exponent=public_exponent, key_size=key_size)

    def __getattr__(self, name):
        return getattr(self._real, name)


# ---------------------------------------------------------------------------
class LogCapture(logging.Handler):
    def __init__(self):
        logging.Handler.__init__(self, level=logging.DEBUG)
        self.records = []
        self.keep_level = logging.INFO

    def emit(self, record):
        if record.levelno < self.keep_level:
            return
        try:
            msg = record.getMessage()
        except Exception as e:     # pragma: no cover
            msg = 'UNFORMATTABLE %r %r' % (record.msg, e)
        exc = None
        if record.exc_info and record.exc_info[0] is not None:
            exc = logging.Formatter().formatException(record.exc_info)
        self.records.append((record.name, record.levelno, msg, exc))

    def reset(self):
        self.records = []


LOG = LogCapture()
_INSTALLED = False


def install():
    """Install the seams once per process. Idempotent."""
    global _INSTALLED
    if _INSTALLED:
        return
    import kmip
    root = os.path.realpath(os.path.dirname(os.path.dirname(kmip.__file__)))
    want = os.path.realpath(REPO)
    if root != want:
        raise RuntimeError('kmip imported from %s, expected %s' % (root, want))
    import kmip.services.server.engine as eng
    import kmip.services.server.session as ses
    import kmip.services.server.monitor as mon
    import kmip.services.server.crypto.engine as ceng
    import kmip.core.primitives as prim
    eng.time = TIME
    ses.time = TIME
    mon.time = TIME
    prim.time = TIME
    ceng.os = OS
    ceng.rsa = _RsaModule(ceng.rsa)
    rootlog = logging.getLogger()
    for h in list(rootlog.handlers):
        rootlog.removeHandler(h)
    rootlog.addHandler(LOG)
    rootlog.setLevel(logging.INFO)
    import warnings
    warnings.filterwarnings('ignore')
    _INSTALLED = True


def reset(clock_start=None, rng_seed=0):
    """Fresh clock, entropy and log capture for one run."""
    install()
    TIME.clock = SimClock(clock_start)
    OS.rng = SimRng(rng_seed)
    LOG.reset()
    return TIME.clock, OS.rng


def scratch_root():
    base = '/dev/shm' if os.path.isdir('/dev/shm') and \
        os.access('/dev/shm', os.W_OK) else \
        os.environ.get('TMPDIR', '/var/tmp')
    return base


def repo_commit():
    try:
        import subprocess
        return subprocess.check_output(
            ['git', '-C', REPO, 'rev-parse', 'HEAD'],
            stderr=subprocess.DEVNULL).decode().strip()
    except Exception:
        return 'unknown'


def jsonable_equal(a, b):
    """Equality after JSON normalisation (tuples == lists etc.)."""
    na = json.loads(json.dumps(a, default=_json_default))
    nb = json.loads(json.dumps(b, default=_json_default))
    return na == nb
