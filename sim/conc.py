"""
Concurrent sub-batches for checks whose property is stated per request but
can be broken from the way sessions share the engine (C16: the protocol
version a request is judged under, C17: the identity it is judged under).
The plans have the shape of C10's plans (they run in the threaded world
under the deterministic scheduler, `c10.execute`); each check supplies its
own scripts and its own judge of the recorded exchanges. The judges look at
one request and its answer at a time, so they hold under every
interleaving of a correct server - no witness order is needed.
"""
from sim import gen

A = gen.A
MAX_POINT = 9000
CREATORS = ('Create', 'Register', 'DeriveKey', 'CreateKeyPair')


def schedule(r, nact):
    """Pre-emption points, tie-breaks and lock-release yields, drawn like
    C10 draws them."""
    d = r.choice([0, 1, 1, 2, 2, 3, 3, 4, 5])
    preempts = []
    for _ in range(d):
        task = 's%d' % r.randrange(nact)
        if r.random() < 0.5:
            pt = int(2 ** (r.random() * 13.1)) + r.randrange(3)
        else:
            pt = r.randrange(1, MAX_POINT)
        to = 's%d' % r.randrange(nact) if r.random() < 0.7 else None
        preempts.append([task, min(pt, MAX_POINT), to])
    tiebreaks = [r.randrange(4) for _ in range(r.choice([0, 2, 6, 12]))]
    y = r.random()
    ry = None if y < 0.25 else 'all' if y < 0.7 else \
        sorted(set(r.randrange(1, 14) for _ in range(r.choice([1, 2, 3]))))
    return preempts, tiebreaks, ry


def simple_create(ctx, mask=12):
    return {'op': 'Create', 'label': ctx.label(), 'otype': 'SymmetricKey',
            'attrs': [A('Cryptographic Algorithm', 3),
                      A('Cryptographic Length', 128),
                      A('Cryptographic Usage Mask', mask)]}


def simple_keypair(ctx):
    return {'op': 'CreateKeyPair', 'label': ctx.label(),
            'common': [A('Cryptographic Algorithm', 4),
                       A('Cryptographic Length', 1024)],
            'private': [A('Cryptographic Usage Mask', 1)],
            'public': [A('Cryptographic Usage Mask', 2)]}


def created_ids(op, it):
    """Identifiers a successful creating item reports."""
    if it['status'] != 0 or op['op'] not in CREATORS:
        return []
    ids = it['payload'].get('uids') or [it['payload'].get('private_uid'),
                                        it['payload'].get('public_uid')]
    return [u for u in ids if u]


def plan_of(r, index, actors, scripts, policies=None):
    preempts, tiebreaks, ry = schedule(r, len(actors))
    return {'kind': 'concurrent', 'actors': actors, 'policies': policies,
            'seed': r.randrange(1 << 30), 'scripts': scripts,
            'preempts': preempts, 'tiebreaks': tiebreaks,
            'release_yields': ry, 'server': index % 5 == 4}


def sent_uids(frame):
    """Per batch item of a request frame: the Unique Identifier its payload
    names (as it went over the wire), or None."""
    from sim import ttlv_ref as t
    out = []
    try:
        tree = t.parse(frame)
    except Exception:
        return out
    for bi in tree.children(t.TAG['BATCH_ITEM']):
        pl = bi.child(t.TAG['REQUEST_PAYLOAD'])
        u = None if pl is None else pl.get(t.TAG['UNIQUE_IDENTIFIER'])
        out.append(u)
    return out
