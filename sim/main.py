"""Entry point: /venv/bin/python /verif/sim/main.py <ID> [--tier quick|thorough]
[--replay file] [--workers n]. Loaded once as a script (never via -m)."""
import os
import sys

HERE = os.path.dirname(os.path.abspath(__file__))
VERIF = os.path.dirname(HERE)
REPO = os.environ.get('VERIF_REPO', '/repo')
if os.environ.get('PYTHONHASHSEED') is None:
    os.environ['PYTHONHASHSEED'] = '0'
    os.execv(sys.executable, [sys.executable] + sys.argv)
sys.path.insert(0, VERIF)
sys.path.insert(0, REPO)
import faulthandler
import signal
faulthandler.register(signal.SIGUSR1, all_threads=True)


def main(argv):
    import argparse
    ap = argparse.ArgumentParser()
    ap.add_argument('prop')
    ap.add_argument('--tier', default=os.environ.get('VERIF_TIER', 'quick'))
    ap.add_argument('--replay')
    ap.add_argument('--raw', action='store_true')
    ap.add_argument('--digests')
    ap.add_argument('--workers', type=int,
                    default=int(os.environ.get('VERIF_WORKERS', 0)) or
                    min(16, os.cpu_count() or 1))
    ap.add_argument('--seed', type=int,
                    default=int(os.environ.get('VERIF_SEED', 0)))
    a = ap.parse_args(argv)
    from sim import runner
    pid = a.prop.upper()
    if pid != 'SELFTEST' and getattr(runner.load_prop(pid), 'NEEDS_SHIM',
                                     False):
        from sim import crash
        crash.reexec_with_shim()

    def log(s):
        print(s)
        sys.stdout.flush()

    try:
        if pid == 'SELFTEST':
            from sim import selftest
            return selftest.main(a, log)
        if a.replay:
            return runner.main_replay(pid, a.replay, a.raw, log)
        if a.digests:
            idx = [int(x) for x in a.digests.split(',') if x]
            return runner.main_digests(pid, a.tier, a.seed, idx, a.workers,
                                       log)
        return runner.main_check(pid, a.tier, a.seed, a.workers, log)
    except runner.HarnessError as e:
        log('HARNESS-ERROR property=%s %s' % (pid, e))
        return 2


if __name__ == '__main__':
    rc = 2
    try:
        rc = main(sys.argv[1:])
    except SystemExit as e:
        rc = e.code if isinstance(e.code, int) else 2
    except BaseException:
        import traceback
        traceback.print_exc()
        print('HARNESS-ERROR uncaught exception in harness')
        rc = 2
    sys.stdout.flush()
    os._exit(rc)
