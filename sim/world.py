"""
The inline world: real KmipEngine + real KmipSession objects over
FakeConnections, one SQLite file on tmpfs, simulated clock/entropy,
optional fake SLUGS service for group information. Single-threaded: the
simulator delivers a frame and calls the session's real
_handle_message_loop() synchronously.
"""
import copy
import os
import shutil
import sqlite3

from sim import kernel, net, reqs
from sim import ttlv_ref as t

NEVER_ISSUED = '987654'


class FakeSlugs(object):
    """Stands in for the `requests` module inside auth/slugs.py. The script
    maps user -> behaviour."""

    class _Resp(object):
        def __init__(self, status, body):
            self.status_code = status
            self._body = body

        def json(self):
            if isinstance(self._body, Exception):
                raise self._body
            return self._body

    def __init__(self):
        self.users = {}     # user -> {'groups': [...]} or fault string
        self.calls = []
        self.script = {}    # url -> behaviour override

    def get(self, url, timeout=None, **kw):
        self.calls.append(url)
        beh = self.script.get(url)
        tail = url.split('/users/', 1)[1] if '/users/' in url else ''
        is_groups = tail.endswith('/groups')
        user = tail[:-len('/groups')] if is_groups else tail
        if beh is None:
            u = self.users.get(user)
            if u is None:
                beh = ('status', 404)
            elif is_groups:
                beh = ('json', {'groups': u.get('groups')})
            else:
                beh = ('json', {'user': user})
        kind = beh[0]
        if kind == 'raise':
            import requests
            raise requests.exceptions.ConnectionError(
                'simulated: SLUGS unreachable')
        if kind == 'status':
            return self._Resp(beh[1], {})
        if kind == 'badjson':
            return self._Resp(200, ValueError('simulated: not JSON'))
        return self._Resp(200, beh[1])

    # the real module attributes slugs.py might touch
    @property
    def exceptions(self):
        import requests
        return requests.exceptions


SLUGS = FakeSlugs()


def convert_policies(user_policies):
    """JSON policy documents (as the policy files hold them) -> the
    enum-keyed tables the engine expects. Uses the repo's own parser on the
    JSON text, exactly as the server would load it from a file."""
    from kmip.core import policy as core_policy
    import json
    import tempfile
    out = {}
    if not user_policies:
        return out
    d = tempfile.mkdtemp(prefix='pol', dir=kernel.scratch_root())
    try:
        p = os.path.join(d, 'p.json')
        with open(p, 'w') as f:
            json.dump(user_policies, f)
        out = core_policy.read_policy_from_file(p)
    finally:
        shutil.rmtree(d, ignore_errors=True)
    return out


class World(object):
    def __init__(self, actors, user_policies=None, seed=0, clock_start=None,
                 tls_client_auth=True, workdir=None, policy_store=None,
                 auth_settings=None, reset=True):
        """actors: list of {"cn": str, "groups": None|[...],
        "eku": [...]|None, "cns": [...]} """
        if reset:
            self.clock, self.rng = kernel.reset(clock_start, seed)
        else:
            kernel.install()
            self.clock, self.rng = kernel.TIME.clock, kernel.OS.rng
        import kmip.services.server.auth.slugs as slugs_mod
        slugs_mod.requests = SLUGS
        if reset:
            SLUGS.users = {}
            SLUGS.calls = []
            SLUGS.script = {}
        self.actors = actors
        self.tls_client_auth = tls_client_auth
        self.own_dir = workdir is None
        self.dir = workdir or os.path.join(
            kernel.scratch_root(), 'pykmip-verif-%d' % os.getpid(),
            'w%d' % id(self))
        os.makedirs(self.dir, exist_ok=True)
        self.db = os.path.join(self.dir, 'kmip.db')
        from kmip.core import policy as core_policy
        if policy_store is not None:
            self.policies = policy_store
        else:
            self.policies = copy.deepcopy(core_policy.policies)
            self.policies.update(convert_policies(user_policies))
        self.any_groups = any(a.get('groups') is not None for a in actors)
        if auth_settings is not None:
            self.auth_settings = auth_settings
        elif self.any_groups:
            self.auth_settings = [('auth:slugs', {'enabled': 'True',
                                                  'url': 'http://slugs'})]
            for a in actors:
                # with a plugin enabled every user must be known to it;
                # "no group information" is then an absent groups value
                SLUGS.users[a['cn']] = {'groups': a.get('groups')}
        else:
            self.auth_settings = None
        self.engine = None
        self.sessions = {}
        self.labels = {}
        self.monitors = []       # fn(world, info) called per exchanged frame
        self.trace = []
        self.seq = 0
        self.requests = 0
        self.frames = 0
        self.restarts = 0
        self.escapes = []
        self.last_escape = None
        self.start_engine()

    # ------------------------------------------------------------------
    def start_engine(self):
        from kmip.services.server.engine import KmipEngine
        self.engine = KmipEngine(policies=self.policies,
                                 database_path=self.db)
        self.sessions = {}

    def stop_engine(self):
        if self.engine is not None:
            try:
                self.engine._data_store.dispose()
            except Exception:
                pass
        self.engine = None
        self.sessions = {}

    def restart(self):
        self.stop_engine()
        self.restarts += 1
        self.start_engine()
        self.event('restart')

    def close(self):
        self.stop_engine()
        if self.own_dir:
            shutil.rmtree(self.dir, ignore_errors=True)

    def __enter__(self):
        return self

    def __exit__(self, *a):
        self.close()

    # ------------------------------------------------------------------
    def event(self, kind, **kw):
        self.seq += 1
        e = dict(kw)
        e['seq'] = self.seq
        e['ev'] = kind
        self.trace.append(e)
        return e

    def resolve(self, ref):
        if isinstance(ref, str) and ref.startswith('@'):
            return self.labels.get(ref[1:], NEVER_ISSUED)
        return ref

    def session(self, ai):
        from kmip.services.server.session import KmipSession
        if ai not in self.sessions:
            a = self.actors[ai]
            cns = a.get('cns', [a['cn']])
            der = None if a.get('nocert') else net.make_certificate(
                cns, a.get('eku', ('client',)))
            conn = net.FakeConnection(der, name='c%d' % ai)
            s = KmipSession(self.engine, conn, ('10.0.0.%d' % (ai + 1), 5696),
                            name='s%d' % ai,
                            enable_tls_client_auth=self.tls_client_auth,
                            auth_settings=self.auth_settings)
            self.sessions[ai] = (s, conn)
        return self.sessions[ai]

    def send_raw(self, ai, frame, chunks=None):
        """Deliver one frame, run the real message loop once, return the
        frames the session sent."""
        s, conn = self.session(ai)
        conn.feed(frame, chunks)
        self.frames += 1
        self.last_escape = None
        try:
            s._handle_message_loop()
        except Exception as e:
            # KmipSession.run() catches whatever leaves the message loop,
            # logs it and carries on; the simulator records it.
            self.last_escape = '%s: %s' % (type(e).__name__, e)
            self.escapes.append(self.last_escape)
            self.event('escape', actor=ai, error=self.last_escape)
        return conn.take_sent()

    def request(self, req, record=True):
        """Build, send, parse. Returns reqs.Response (or raises)."""
        ai = req.get('actor', 0)
        frame = reqs.build_request(req, self.resolve, now=self.clock.now)
        self.requests += 1
        t_in = self.clock.now
        sent = self.send_raw(ai, frame, req.get('chunks'))
        t_out = self.clock.now
        info = {'actor': ai, 'req': req, 'frame': frame, 'sent': sent,
                't_in': t_in, 't_out': t_out, 'resp': None,
                'escape': self.last_escape}
        if len(sent) == 1:
            try:
                info['resp'] = reqs.Response(sent[0])
            except Exception as e:
                info['parse_error'] = '%s: %s' % (type(e).__name__, e)
        for m in self.monitors:
            m(self, info)
        resp = info['resp']
        if resp is not None:
            self._learn_labels(req, resp)
        if record:
            self.event('req', actor=ai,
                       ops=[o['op'] for o in req['items']],
                       ver=list(req.get('ver', (1, 2))),
                       nframes=len(sent),
                       result=None if resp is None else [
                           (i['status'], i['reason'], i['message'],
                            i['payload']) for i in resp.items])
        info['response'] = resp
        self.last = info
        return resp

    def _learn_labels(self, req, resp):
        by_pos = resp.items
        for i, op in enumerate(req['items']):
            lab = op.get('label')
            if lab is None or i >= len(by_pos):
                continue
            it = by_pos[i]
            if it['status'] != 0:
                continue
            p = it['payload']
            if op['op'] == 'CreateKeyPair':
                if p.get('private_uid'):
                    self.labels[lab] = p['private_uid']
                if p.get('public_uid'):
                    self.labels[lab + '.pub'] = p['public_uid']
            elif p.get('uids'):
                self.labels[lab] = p['uids'][0]

    # ------------------------------------------------------------------
    def dump(self):
        """Logical content of every table, read with plain sqlite3 (not
        through the engine)."""
        return dump_db(self.db)


def dump_db(path):
    con = sqlite3.connect(path, timeout=0.5)
    try:
        cur = con.cursor()
        tables = [r[0] for r in cur.execute(
            "select name from sqlite_master where type='table' "
            "order by name")]
        out = {}
        for tb in tables:
            rows = cur.execute('select * from "%s"' % tb).fetchall()
            out[tb] = sorted(
                [[c.hex() if isinstance(c, bytes) else c for c in r]
                 for r in rows], key=repr)
        return out
    finally:
        con.close()


def cleanup_process_scratch():
    shutil.rmtree(os.path.join(kernel.scratch_root(),
                               'pykmip-verif-%d' % os.getpid()),
                  ignore_errors=True)
