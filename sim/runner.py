"""
Batch driver shared by all property checks: seeded plan generation,
parallel execution, violation triage (minimise -> replay file -> fresh
interpreter replay -> known findings), evidence, exit codes.

Exit codes: 0 held / only known findings; 1 violation; 2 harness error.
"""
import concurrent.futures as cf
import faulthandler
import importlib
import json
import multiprocessing
import os
import random
import subprocess
import sys
import time
import traceback

from sim import kernel

VERIF = kernel.VERIF
OUT = os.path.join(VERIF, 'out')
REPLAY_DIR = os.path.join(OUT, 'replay')
EVIDENCE_DIR = os.environ.get('VERIF_EVIDENCE_DIR') or \
    os.path.join(VERIF, 'evidence')
KNOWN = os.path.join(VERIF, 'known_findings.json')


class HarnessError(Exception):
    pass


def load_prop(pid):
    return importlib.import_module('sim.props.%s' % pid.lower())


def sig_key(sig):
    return json.dumps(sig, sort_keys=True, default=kernel._json_default)


def jsonable(o):
    return json.loads(json.dumps(o, default=kernel._json_default))


# ---------------------------------------------------------------------------
def run_one(prop, tier, base_seed, index):
    """Generate and execute plan `index`. Returns a summary dict."""
    seed = kernel.derive_seed(base_seed, prop.ID, index)
    rng = random.Random(seed)
    if index < 0:
        # directed plans: fixed regression scenarios (known findings,
        # repaired defects) that every run executes besides the seeded ones
        plan = prop.directed(tier)[-index - 1]
    else:
        plan = prop.generate(rng, tier, index)
    plan = jsonable(plan)
    res = prop.execute(plan)
    res['index'] = index
    res['seed'] = seed
    if res.get('violations'):
        res['plan'] = plan
    elif 0 <= index < 3:
        res['plan_sample'] = plan
    return res


def _worker_chunk(args):
    pid, tier, base_seed, indices = args
    faulthandler.enable()
    out = []
    cov = None
    if os.environ.get('VERIF_COV'):
        # development aid (tools/covgap.py): line coverage of the repository
        # under a check, to find code the generators never reach. Uses
        # sys.monitoring, so it does not disturb the scheduler's settrace.
        import coverage
        cov = coverage.Coverage(
            data_file=os.path.join(os.environ['VERIF_COV'], 'cov'),
            data_suffix=True, include=[os.path.join(kernel.REPO, 'kmip', '*')])
        cov.start()
    try:
        prop = load_prop(pid)
        for i in indices:
            try:
                faulthandler.dump_traceback_later(300, exit=True)
                out.append(run_one(prop, tier, base_seed, i))
            except Exception:
                out.append({'index': i, 'harness_error':
                            traceback.format_exc()[-3000:]})
            finally:
                faulthandler.cancel_dump_traceback_later()
    finally:
        from sim import world
        world.cleanup_process_scratch()
        if cov is not None:
            cov.stop()
            cov.save()
    return out


def _pool(workers):
    ctx = multiprocessing.get_context('fork')
    return cf.ProcessPoolExecutor(max_workers=workers, mp_context=ctx)


def run_indices(pid, tier, base_seed, indices, workers, budget_s,
                chunk=8, task_timeout=600):
    """Execute the given plan indices across workers. Stops handing out
    new chunks when the wall budget is spent. Returns (results, skipped)."""
    t0 = time.time()
    results = []
    indices = list(indices)
    chunks = [indices[i:i + chunk] for i in range(0, len(indices), chunk)]
    skipped = 0
    if workers <= 1:
        for ch in chunks:
            if time.time() - t0 > budget_s:
                skipped += len(ch)
                continue
            results.extend(_worker_chunk((pid, tier, base_seed, ch)))
        return results, skipped
    ex = _pool(workers)
    try:
        pending = {}
        it = iter(chunks)
        exhausted = False

        def submit_more():
            nonlocal exhausted, skipped
            while not exhausted and len(pending) < workers * 2:
                try:
                    ch = next(it)
                except StopIteration:
                    exhausted = True
                    return
                if time.time() - t0 > budget_s:
                    skipped += len(ch)
                    continue
                f = ex.submit(_worker_chunk, (pid, tier, base_seed, ch))
                pending[f] = (ch, time.time())

        submit_more()
        while pending:
            done, _ = cf.wait(list(pending), timeout=5,
                              return_when=cf.FIRST_COMPLETED)
            for f in done:
                ch, ts = pending.pop(f)
                try:
                    results.extend(f.result())
                except Exception as e:
                    raise HarnessError('worker died on indices %s: %r'
                                       % (ch, e))
            now = time.time()
            for f, (ch, ts) in list(pending.items()):
                if now - ts > task_timeout:
                    raise HarnessError('worker stuck on indices %s' % (ch,))
            submit_more()
    finally:
        for p in list(getattr(ex, '_processes', {}).values()):
            try:
                if p.is_alive():
                    p.kill()
            except Exception:
                pass
        ex.shutdown(wait=False, cancel_futures=True)
    results.sort(key=lambda r: r['index'])
    return results, skipped


# ---------------------------------------------------------------------------
def same_violation(res, key):
    for v in res.get('violations', []):
        if sig_key(v['sig']) == key:
            return v
    return None


def minimise(prop, plan, key, max_runs=120, max_s=40):
    """Delta-debugging over the plan's step lists, then per-step
    simplification offered by the property. A candidate is kept only if
    the same violation signature persists."""
    t0 = time.time()
    runs = [0]

    def still_fails(cand):
        if runs[0] >= max_runs or time.time() - t0 > max_s:
            return False
        runs[0] += 1
        try:
            r = prop.execute(jsonable(cand))
        except Exception:
            return False
        return same_violation(r, key) is not None

    lists = getattr(prop, 'SHRINK_LISTS', ['steps'])
    cur = json.loads(json.dumps(plan))
    for name in lists:
        seq = cur.get(name)
        if not isinstance(seq, list) or len(seq) < 2:
            continue
        n = 2
        while len(seq) >= 2 and n <= len(seq) * 2:
            size = max(1, len(seq) // n)
            reduced = False
            for start in range(0, len(seq), size):
                cand_seq = seq[:start] + seq[start + size:]
                if not cand_seq and name == 'steps':
                    continue
                cand = dict(cur)
                cand[name] = cand_seq
                if still_fails(cand):
                    seq = cand_seq
                    cur = cand
                    n = max(n - 1, 2)
                    reduced = True
                    break
            if not reduced:
                if size == 1:
                    break
                n = min(n * 2, len(seq))
        cur[name] = seq
    simp = getattr(prop, 'simplify', None)
    if simp is not None:
        progress = True
        while progress and runs[0] < max_runs and time.time() - t0 <= max_s:
            progress = False
            for cand in simp(cur):
                if still_fails(cand):
                    cur = cand
                    progress = True
                    break
    return cur, runs[0]


def load_known():
    if not os.path.exists(KNOWN):
        return []
    with open(KNOWN) as f:
        return json.load(f).get('findings', [])


def match_known(pid, sig, known):
    for k in known:
        if k.get('property') != pid or k.get('status') != 'open':
            continue
        m = k.get('match', {})
        if all(sig.get(a) == b for a, b in m.items()):
            return k
    return None


def replay_in_fresh_interpreter(pid, path):
    env = dict(os.environ)
    env['PYTHONHASHSEED'] = '0'
    p = subprocess.run([sys.executable, os.path.join(VERIF, 'sim', 'main.py'),
                        pid, '--replay', path, '--raw'],
                       stdout=subprocess.PIPE, stderr=subprocess.PIPE,
                       env=env, timeout=600)
    out = p.stdout.decode(errors='replace')
    for line in out.splitlines():
        if line.startswith('REPLAY-RESULT '):
            return json.loads(line[len('REPLAY-RESULT '):])
    raise HarnessError('replay produced no result: rc=%s out=%s err=%s' % (
        p.returncode, out[-500:], p.stderr.decode(errors='replace')[-1500:]))


def triage(prop, tier, base_seed, results, log):
    """Returns (n_new_violations, n_known, lines)"""
    pid = prop.ID
    known = load_known()
    by_sig = {}
    for r in results:
        for v in r.get('violations', []):
            k = sig_key(v['sig'])
            if k not in by_sig:
                by_sig[k] = (r, v)
    new = 0
    nknown = 0
    used_paths = {}
    unrepro = []
    os.makedirs(REPLAY_DIR, exist_ok=True)
    for k, (r, v) in sorted(by_sig.items(),
                            key=lambda kv: kv[1][0]['index']):
        kf = match_known(pid, v['sig'], known)
        plan = v.get('plan') or r['plan']
        small, nruns = minimise(prop, plan, k)
        fin = prop.execute(jsonable(small))
        vv = same_violation(fin, k)
        if vv is None:     # minimisation must never lose the violation
            small, fin = plan, prop.execute(jsonable(plan))
            vv = same_violation(fin, k)
            if vv is None:
                unrepro.append(
                    'violation %s of plan %d did not reproduce in-process'
                    % (k, r['index']))
                continue
        nfile = used_paths.get(r['index'], 0)
        used_paths[r['index']] = nfile + 1
        path = os.path.join(REPLAY_DIR, '%s-%d-%d%s.json' % (
            pid, base_seed, r['index'],
            '' if nfile == 0 else '-%d' % nfile))
        with open(path, 'w') as f:
            json.dump({'property': pid, 'base_seed': base_seed,
                       'index': r['index'], 'seed': r['seed'],
                       'signature': v['sig'], 'detail': vv.get('detail'),
                       'digest': fin.get('digest'),
                       'minimise_runs': nruns,
                       'original_steps': len(plan.get('steps', [])),
                       'repo_commit': kernel.repo_commit(),
                       'plan': small}, f, indent=1,
                      default=kernel._json_default)
        rr = replay_in_fresh_interpreter(pid, path)
        if k not in rr.get('sigs', []) or rr.get('digest') != \
                fin.get('digest'):
            # it depends on state left behind by other plans of the worker
            # process: not reportable as a violation with a replay file
            unrepro.append(
                'replay of %s in a fresh interpreter did not reproduce %s: '
                'sigs=%s digest %s vs %s' % (path, k, rr.get('sigs'),
                                             rr.get('digest'),
                                             fin.get('digest')))
            continue
        if kf is not None:
            nknown += 1
            log('KNOWN-FINDING: property=%s %s [%s] replay=%s' % (
                pid, kf.get('what', ''), k, path))
        else:
            new += 1
            log('VIOLATION property=%s replay=%s' % (pid, path))
            log('  signature: %s' % k)
            log('  detail: %s' % json.dumps(vv.get('detail'),
                                            default=kernel._json_default
                                            )[:1500])
    if unrepro:
        for u in unrepro[:5]:
            log('note: ' + u)
        if not new:
            raise HarnessError(unrepro[0])
    return new, nknown


# ---------------------------------------------------------------------------
def write_evidence(prop, tier, base_seed, results, wall, extra, nviol,
                   skipped):
    pid = prop.ID
    os.makedirs(EVIDENCE_DIR, exist_ok=True)
    ok = [r for r in results if 'harness_error' not in r]
    keys = set()
    faults = {}
    probes = {}
    states = set()
    scheds = set()
    sim_s = 0.0
    steps = 0
    nevals = 0
    for r in ok:
        nevals += r.get('evals', 1)
        if r.get('nt_keys') is not None:
            keys.update(r['nt_keys'])
        elif r.get('nontrivial'):
            keys.add(r.get('key') or r.get('digest'))
        for a, b in (r.get('faults') or {}).items():
            faults[a] = faults.get(a, 0) + b
        for a, b in (r.get('probes') or {}).items():
            probes[a] = probes.get(a, 0) + b
        for s in r.get('states') or []:
            states.add(s)
        if r.get('schedule') is not None:
            scheds.add(r['schedule'])
        sim_s += r.get('sim_s', 0.0)
        steps += r.get('steps', 0)
    samples = []
    for r in ok:
        if r.get('sample') is not None:
            samples.append(r['sample'])
        if len(samples) >= 3:
            break
    if not samples:
        samples = [r.get('plan_sample') for r in ok[:2]
                   if r.get('plan_sample')] or ['(no sample recorded)']
    cov = {
        'evaluations': nevals,
        'plans': len(ok),
        'distinct_nontrivial': len(keys),
        'rule': prop.RULE,
        'samples': jsonable(samples),
        'exhaustive': bool(getattr(prop, 'EXHAUSTIVE', {}).get(tier, False)),
        'runs_per_hour': int(nevals / wall * 3600) if wall > 0 else 0,
        'steps_executed': steps,
        'sim_seconds_covered': round(sim_s, 3),
        'fault_fired': faults,
        'rare_probes': probes,
        'probes_stuck_at_zero': sorted(
            p for p in getattr(prop, 'PROBES', []) if not probes.get(p)),
        'distinct_model_states': len(states),
        'distinct_schedules': len(scheds),
        'plans_skipped_by_wall_budget': skipped,
        'real_vs_stub': getattr(prop, 'REAL_VS_STUB', {}),
        'known_findings_reported': extra.get('known', 0),
        'harness_errors': len(results) - len(ok),
    }
    cov.update(extra.get('coverage', {}))
    ev = {
        'property_id': pid,
        'tier': tier,
        'seed': base_seed,
        'level': prop.LEVEL,
        'coverage': cov,
        'assumptions': list(getattr(prop, 'ASSUMPTIONS', [])),
        'wall_s': round(wall, 2),
        'violations': nviol,
    }
    with open(os.path.join(EVIDENCE_DIR, '%s.json' % pid), 'w') as f:
        json.dump(ev, f, indent=1, default=kernel._json_default)
    return ev


def determinism_check(pid, tier, base_seed, indices, workers):
    """Re-run `indices` in a fresh interpreter under another hash seed and a
    different worker count; compare digests."""
    env = dict(os.environ)
    env['PYTHONHASHSEED'] = '1'
    env['VERIF_SEED'] = str(base_seed)
    p = subprocess.run(
        [sys.executable, os.path.join(VERIF, 'sim', 'main.py'), pid,
         '--digests=' + ','.join(map(str, indices)), '--tier', tier,
         '--workers', str(max(1, workers))],
        stdout=subprocess.PIPE, stderr=subprocess.PIPE, env=env,
        timeout=3600)
    for line in p.stdout.decode(errors='replace').splitlines():
        if line.startswith('DIGESTS '):
            return json.loads(line[len('DIGESTS '):])
    raise HarnessError('digest run failed: %s' %
                       p.stderr.decode(errors='replace')[-1500:])


def main_check(pid, tier, base_seed, workers, log=print):
    prop = load_prop(pid)
    t0 = time.time()
    n = int(os.environ.get('VERIF_N', 0)) or prop.COUNT[tier]
    budget = float(os.environ.get('VERIF_BUDGET_S', 0)) or \
        prop.BUDGET_S[tier]
    log('check %s tier=%s seed=%d plans=%d budget=%ds workers=%d repo=%s' % (
        pid, tier, base_seed, n, budget, workers, kernel.REPO))
    pre = getattr(prop, 'prepare', None)
    if pre is not None:
        pre(tier)
    ndirected = len(prop.directed(tier)) if hasattr(prop, 'directed') else 0
    results, skipped = run_indices(
        pid, tier, base_seed,
        list(range(-ndirected, 0)) + list(range(n)), workers, budget,
        chunk=getattr(prop, 'CHUNK', 8))
    herr = [r for r in results if 'harness_error' in r]
    extra = {'coverage': {}}
    nondet = []
    # determinism: a sample of indices re-executed in a fresh interpreter
    # with another hash seed and another worker count
    ok = [r for r in results if 'harness_error' not in r]
    nd = min(len(ok), prop.DETERMINISM[tier])
    if nd:
        step = max(1, len(ok) // nd)
        sample = [r['index'] for r in ok[::step]][:nd]
        dg = determinism_check(pid, tier, base_seed, sample,
                               3 if workers > 3 else 1)
        mism = [i for i in sample
                if dg.get(str(i)) != next(r for r in ok
                                          if r['index'] == i)['digest']]
        extra['coverage']['determinism'] = {
            'pairs': len(sample), 'mismatches': len(mism),
            'other_hashseed': 1, 'other_workers': 3 if workers > 3 else 1}
        nondet = mism
    try:
        new, nknown = triage(prop, tier, base_seed, results, log)
    except HarnessError as e:
        log('HARNESS-ERROR property=%s %s' % (pid, e))
        return 2
    extra['known'] = nknown
    wall = time.time() - t0
    ev = write_evidence(prop, tier, base_seed, results, wall, extra, new,
                        skipped)
    c = ev['coverage']
    log('%s: %d runs, %d non-trivial distinct, %d steps, %.0f sim-s, '
        'faults=%s, %d new violations, %d known findings, %.1fs' % (
            pid, c['evaluations'], c['distinct_nontrivial'],
            c['steps_executed'], c['sim_seconds_covered'],
            json.dumps(c['fault_fired'], sort_keys=True), new, nknown, wall))
    if c['probes_stuck_at_zero']:
        log('warning: probes never hit: %s' % c['probes_stuck_at_zero'])
    if nondet and not new:
        # state leaking between plans of one process (or a real source of
        # nondeterminism in the harness): never a pass. When the same run
        # also found a violation that replays exactly in a fresh
        # interpreter, the violation is what gets reported.
        log('HARNESS-ERROR property=%s nondeterministic digests for plan '
            'indices %s' % (pid, nondet[:10]))
        return 2
    if nondet:
        log('note: digests of plan indices %s differed between two '
            'executions (state carried over between plans in one process)'
            % nondet[:10])
    if herr:
        log(herr[0]['harness_error'])
        log('HARNESS-ERROR property=%s %d plans raised in the harness' % (
            pid, len(herr)))
        return 2
    if c['evaluations'] == 0:
        log('HARNESS-ERROR property=%s nothing executed' % pid)
        return 2
    return 1 if new else 0


def main_replay(pid, path, raw=False, log=print):
    prop = load_prop(pid)
    with open(path) as f:
        rep = json.load(f)
    res = prop.execute(jsonable(rep['plan']))
    sigs = [sig_key(v['sig']) for v in res.get('violations', [])]
    if raw:
        log('REPLAY-RESULT ' + json.dumps({'sigs': sigs,
                                           'digest': res.get('digest')}))
        return 0
    want = sig_key(rep['signature'])
    known = load_known()
    if want in sigs:
        if match_known(pid, rep['signature'], known):
            log('KNOWN-FINDING: property=%s %s' % (pid, want))
            return 0
        log('VIOLATION property=%s replay=%s' % (pid, path))
        log('  signature: %s' % want)
        for v in res['violations']:
            if sig_key(v['sig']) == want:
                log('  detail: %s' % json.dumps(
                    v.get('detail'), default=kernel._json_default)[:3000])
        return 1
    log('replay of %s: recorded violation not reproduced (now: %s)' % (
        path, sigs))
    return 0


def main_digests(pid, tier, base_seed, indices, workers, log=print):
    results, _ = run_indices(pid, tier, base_seed, indices, workers, 10 ** 6)
    log('DIGESTS ' + json.dumps(dict(
        (str(r['index']), r.get('digest')) for r in results)))
    return 0
