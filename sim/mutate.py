"""
Grammar-aware corruption of valid request frames, done on the independent
TTLV tree (sim/ttlv_ref.py) or on the raw bytes using the tree's offsets.
Every mutation is described by a small JSON-able spec so that a corrupted
frame is reproducible from (valid request, spec).
"""
import struct

from sim import ttlv_ref as t
from sim.ttlv_ref import TAG, Node

KINDS = ['flip_type', 'len_delta', 'len_zero', 'len_huge', 'truncate_node',
         'truncate_bytes', 'delete_child', 'dup_child', 'swap_children',
         'unknown_tag', 'bad_enum', 'boundary_int', 'bad_utf8', 'nest',
         'batch_count', 'version', 'async', 'drop_header', 'flip_byte',
         'random_bytes', 'outer_len_delta', 'append_garbage', 'bad_bool',
         'pad_nonzero', 'empty_payload', 'cut_at_boundary',
         'cut_at_boundary']


def gen_spec(r):
    k = r.choice(KINDS)
    s = {'kind': k, 'pick': r.random(), 'pick2': r.random()}
    if k == 'len_delta':
        s['delta'] = r.choice([-8, -1, 1, 7, 8, 16])
    elif k == 'outer_len_delta':
        s['delta'] = r.choice([-8, -16, 8])
    elif k == 'nest':
        s['depth'] = r.choice([1, 2, 5, 20, 60, 200])
    elif k == 'batch_count':
        s['count'] = r.choice([0, 2, 3, -1, 0x7fffffff])
    elif k == 'version':
        s['ver'] = r.choice([[0, 0], [1, 9], [3, 0], [255, 255], [1, -1],
                             [2, 1], [0, 9]])
    elif k == 'boundary_int':
        s['value'] = r.choice([0, -1, 0x7fffffff, -0x80000000])
    elif k == 'bad_enum':
        s['value'] = r.choice([0, 0xffffffff, 0x7fffffff, 999])
    elif k == 'random_bytes':
        s['n'] = r.choice([0, 1, 7, 8, 16, 64, 300])
        s['seed'] = r.randrange(1 << 30)
    elif k in ('flip_byte', 'truncate_bytes'):
        s['seed'] = r.randrange(1 << 30)
    return s


def _nodes(tree):
    return list(tree.walk())


def _pick(lst, x):
    if not lst:
        return None
    return lst[min(len(lst) - 1, int(x * len(lst)))]


def _fix_outer(b):
    """Make the outer header length consistent with the byte count."""
    if len(b) < 8:
        return bytes(b)
    return bytes(b[:4]) + struct.pack('!I', len(b) - 8) + bytes(b[8:])


def apply(frame, spec):
    """-> corrupted frame bytes (outer framing kept consistent unless the
    mutation is about framing itself)."""
    import random
    k = spec['kind']
    b = bytearray(frame)
    if k == 'random_bytes':
        rr = random.Random(spec['seed'])
        body = bytes(rr.getrandbits(8) for _ in range(spec['n']))
        return _fix_outer(b'\x42\x00\x78\x01\x00\x00\x00\x00' + body)
    if k == 'flip_byte':
        rr = random.Random(spec['seed'])
        if len(b) > 8:
            i = rr.randrange(8, len(b))
            b[i] ^= 1 << rr.randrange(8)
        return bytes(b)
    if k == 'truncate_bytes':
        rr = random.Random(spec['seed'])
        cut = rr.randrange(8, max(9, len(b)))
        return _fix_outer(b[:cut])
    if k == 'outer_len_delta':
        ln = max(0, len(b) - 8 + spec['delta'])
        return bytes(b[:4]) + struct.pack('!I', ln) + bytes(b[8:])
    if k == 'append_garbage':
        return _fix_outer(b + b'\xde\xad\xbe\xef\x00\x00\x00\x00')
    if k == 'cut_at_boundary':
        # the frame ends exactly where some item begins (before a payload,
        # before a batch item, before a field), with the outer length fixed
        # up and every inner length still announcing what is missing
        tree = t.parse(frame)
        starts = sorted(set(n.offset for n in tree.walk() if n.offset > 8))
        if not starts:
            return bytes(b)
        cut = _pick(starts, spec['pick'])
        if spec['pick2'] < 0.5:
            # prefer the payload of the last batch item
            pl = [n.offset for n in tree.walk()
                  if n.tag == TAG['REQUEST_PAYLOAD']]
            if pl:
                cut = pl[-1]
        return _fix_outer(b[:cut])
    tree = t.parse(frame)
    nodes = _nodes(tree)
    inner = [n for n in nodes if n is not tree]
    if k in ('flip_type', 'len_delta', 'len_zero', 'len_huge',
             'pad_nonzero'):
        n = _pick(inner, spec['pick'])
        if n is None:
            return bytes(b)
        if k == 'flip_type':
            b[n.offset + 3] = (b[n.offset + 3] % 10) + 1 \
                if spec['pick2'] < 0.8 else 0x0F
        elif k == 'len_delta':
            ln = max(0, n.length + spec['delta'])
            b[n.offset + 4:n.offset + 8] = struct.pack('!I', ln)
        elif k == 'len_zero':
            b[n.offset + 4:n.offset + 8] = b'\x00\x00\x00\x00'
        elif k == 'len_huge':
            b[n.offset + 4:n.offset + 8] = b'\xff\xff\xff\xf0'
        else:
            cands = [x for x in inner if x.type != t.STRUCT and
                     x.length % 8]
            n = _pick(cands, spec['pick'])
            if n is not None:
                b[n.offset + 8 + n.length] = 0x01
        return bytes(b)
    if k == 'truncate_node':
        n = _pick(inner, spec['pick'])
        if n is None:
            return bytes(b)
        return _fix_outer(b[:n.offset + (8 if spec['pick2'] < 0.5 else 4)])
    structs = [n for n in nodes if n.type == t.STRUCT and n.value]
    if k in ('delete_child', 'dup_child', 'swap_children', 'unknown_tag'):
        s = _pick(structs, spec['pick'])
        if s is None:
            return bytes(b)
        i = min(len(s.value) - 1, int(spec['pick2'] * len(s.value)))
        if k == 'delete_child':
            del s.value[i]
        elif k == 'dup_child':
            s.value.insert(i, s.value[i])
        elif k == 'swap_children' and len(s.value) > 1:
            j = (i + 1) % len(s.value)
            s.value[i], s.value[j] = s.value[j], s.value[i]
        elif k == 'unknown_tag':
            c = s.value[i]
            s.value[i] = Node(0x42FFFE if spec['pick2'] < 0.5 else 0x540001,
                              c.type, c.value)
        return t.encode(tree)
    if k in ('bad_enum', 'boundary_int', 'bad_utf8', 'bad_bool'):
        want = {'bad_enum': t.ENUM, 'boundary_int': t.INTEGER,
                'bad_utf8': t.TEXT, 'bad_bool': t.BOOL}[k]
        cands = [n for n in inner if n.type == want]
        n = _pick(cands, spec['pick'])
        if n is None:
            return bytes(b)
        if k == 'bad_utf8':
            if n.length:
                b[n.offset + 8] = 0xC3
                if n.length > 1:
                    b[n.offset + 9] = 0x28
            return bytes(b)
        if k == 'bad_bool':
            b[n.offset + 8:n.offset + 16] = struct.pack('!Q', 2)
            return bytes(b)
        if k == 'bad_enum':
            b[n.offset + 8:n.offset + 12] = struct.pack(
                '!I', spec['value'] & 0xffffffff)
        else:
            b[n.offset + 8:n.offset + 12] = struct.pack('!i', spec['value'])
        return bytes(b)
    if k == 'nest':
        items = tree.children(TAG['BATCH_ITEM'])
        if not items:
            return bytes(b)
        it = items[0]
        pl = it.child(TAG['REQUEST_PAYLOAD'])
        if pl is None:
            return bytes(b)
        inner_node = Node(TAG['REQUEST_PAYLOAD'], t.STRUCT, list(pl.value))
        for _ in range(spec['depth']):
            inner_node = Node(TAG['TEMPLATE_ATTRIBUTE'], t.STRUCT,
                              [inner_node])
        pl.value = [inner_node]
        return t.encode(tree)
    hdr = tree.child(TAG['REQUEST_HEADER'])
    if k == 'batch_count' and hdr is not None:
        bc = hdr.child(TAG['BATCH_COUNT'])
        if bc is not None:
            bc.value = spec['count']
        return t.encode(tree)
    if k == 'version' and hdr is not None:
        pv = hdr.child(TAG['PROTOCOL_VERSION'])
        if pv is not None:
            pv.value = [t.I(TAG['PROTOCOL_VERSION_MAJOR'], spec['ver'][0]),
                        t.I(TAG['PROTOCOL_VERSION_MINOR'], spec['ver'][1])]
        return t.encode(tree)
    if k == 'async' and hdr is not None:
        hdr.value.insert(1, t.BOOLEAN(TAG['ASYNCHRONOUS_INDICATOR'], True))
        return t.encode(tree)
    if k == 'drop_header':
        tree.value = [c for c in tree.value
                      if c.tag != TAG['REQUEST_HEADER']]
        return t.encode(tree)
    if k == 'empty_payload':
        for it in tree.children(TAG['BATCH_ITEM']):
            pl = it.child(TAG['REQUEST_PAYLOAD'])
            if pl is not None:
                pl.value = []
        return t.encode(tree)
    return bytes(b)
