"""
Independent TTLV reader/writer, written from the KMIP encoding chapter
(KMIP 1.x spec section 9.1, KMIP 2.0 section 3). Imports nothing from `kmip`.

A node is (tag:int, type:int, value) where value is
  STRUCT   -> list of nodes
  INTEGER  -> int          ENUM     -> int (unsigned)
  LONG     -> int          INTERVAL -> int (unsigned)
  BIGINT   -> int          BOOL     -> bool
  TEXT     -> str          BYTES    -> bytes
  DATETIME -> int          DATETIME_EXT (0x0B) -> int
"""
import struct as _s

STRUCT, INTEGER, LONG, BIGINT, ENUM, BOOL, TEXT, BYTES, DATETIME, INTERVAL, \
    DATETIME_EXT = range(1, 12)

TYPE_NAMES = {1: 'Structure', 2: 'Integer', 3: 'LongInteger', 4: 'BigInteger',
              5: 'Enumeration', 6: 'Boolean', 7: 'TextString',
              8: 'ByteString', 9: 'DateTime', 10: 'Interval',
              11: 'DateTimeExtended'}

FIXED = {INTEGER: 4, LONG: 8, ENUM: 4, BOOL: 8, DATETIME: 8, INTERVAL: 4,
         DATETIME_EXT: 8}


class TTLVError(Exception):
    pass


class Node(object):
    __slots__ = ('tag', 'type', 'value', 'offset', 'length')

    def __init__(self, tag, type, value, offset=0, length=0):
        self.tag = tag
        self.type = type
        self.value = value
        self.offset = offset
        self.length = length

    # navigation helpers -------------------------------------------------
    def children(self, tag=None):
        if self.type != STRUCT:
            return []
        if tag is None:
            return list(self.value)
        return [c for c in self.value if c.tag == tag]

    def child(self, tag):
        for c in self.children():
            if c.tag == tag:
                return c
        return None

    def get(self, tag, default=None):
        c = self.child(tag)
        return default if c is None else c.value

    def walk(self):
        yield self
        if self.type == STRUCT:
            for c in self.value:
                for x in c.walk():
                    yield x

    def to_plain(self):
        if self.type == STRUCT:
            return [hex(self.tag), [c.to_plain() for c in self.value]]
        v = self.value
        if isinstance(v, bytes):
            v = v.hex()
        return [hex(self.tag), TYPE_NAMES.get(self.type, self.type), v]

    def __repr__(self):
        return 'Node(%s)' % (self.to_plain(),)

    def __eq__(self, other):
        return (isinstance(other, Node) and self.tag == other.tag and
                self.type == other.type and self.value == other.value)

    def __ne__(self, other):
        return not self.__eq__(other)


def _parse_item(buf, pos, end, depth, strict_tag):
    if depth > 64:
        raise TTLVError('nesting too deep at %d' % pos)
    if end - pos < 8:
        raise TTLVError('truncated item header at %d' % pos)
    tag = (buf[pos] << 16) | (buf[pos + 1] << 8) | buf[pos + 2]
    typ = buf[pos + 3]
    length = _s.unpack_from('!I', buf, pos + 4)[0]
    if strict_tag and buf[pos] not in (0x42, 0x54):
        raise TTLVError('tag %06x outside 42xxxx/54xxxx at %d' % (tag, pos))
    if typ < 1 or typ > 11:
        raise TTLVError('undefined item type %d at %d' % (typ, pos))
    if typ in FIXED and length != FIXED[typ]:
        raise TTLVError('type %s must have length %d, has %d at %d' % (
            TYPE_NAMES[typ], FIXED[typ], length, pos))
    pad = (8 - length % 8) % 8
    vstart = pos + 8
    vend = vstart + length
    if vend + pad > end:
        raise TTLVError('value of item at %d overruns its container '
                        '(len %d pad %d, %d left)' % (pos, length, pad,
                                                      end - vstart))
    raw = bytes(buf[vstart:vend])
    padding = bytes(buf[vend:vend + pad])
    if padding.strip(b'\x00'):
        raise TTLVError('non-zero padding at %d' % vend)
    if typ == STRUCT:
        if length % 8:
            raise TTLVError('structure length %d not a multiple of 8 at %d'
                            % (length, pos))
        value = []
        p = vstart
        while p < vend:
            node, p = _parse_item(buf, p, vend, depth + 1, strict_tag)
            value.append(node)
        if p != vend:
            raise TTLVError('structure children do not fill its length')
    elif typ == INTEGER:
        value = _s.unpack('!i', raw)[0]
    elif typ in (LONG, DATETIME, DATETIME_EXT):
        value = _s.unpack('!q', raw)[0]
    elif typ == BIGINT:
        if length == 0 or length % 8:
            raise TTLVError('big integer length %d not a positive multiple '
                            'of 8 at %d' % (length, pos))
        value = int.from_bytes(raw, 'big', signed=True)
    elif typ in (ENUM, INTERVAL):
        value = _s.unpack('!I', raw)[0]
    elif typ == BOOL:
        v = _s.unpack('!Q', raw)[0]
        if v not in (0, 1):
            raise TTLVError('boolean value %d at %d' % (v, pos))
        value = bool(v)
    elif typ == TEXT:
        try:
            value = raw.decode('utf-8')
        except UnicodeDecodeError as e:
            raise TTLVError('invalid UTF-8 in text string at %d: %s'
                            % (pos, e))
    else:
        value = raw
    return Node(tag, typ, value, pos, length), vend + pad


def parse(data, strict_tag=True):
    """Parse exactly one top-level item that consumes all of `data`."""
    data = bytes(data)
    node, pos = _parse_item(data, 0, len(data), 0, strict_tag)
    if pos != len(data):
        raise TTLVError('%d trailing bytes after top-level item'
                        % (len(data) - pos))
    return node


def parse_stream(data, strict_tag=True):
    """Parse a concatenation of top-level items."""
    data = bytes(data)
    pos = 0
    out = []
    while pos < len(data):
        node, pos = _parse_item(data, pos, len(data), 0, strict_tag)
        out.append(node)
    return out


def encode(node):
    tag, typ, v = node.tag, node.type, node.value
    if typ == STRUCT:
        body = b''.join(encode(c) for c in v)
    elif typ == INTEGER:
        body = _s.pack('!i', v)
    elif typ in (LONG, DATETIME, DATETIME_EXT):
        body = _s.pack('!q', v)
    elif typ == BIGINT:
        n = max(8, ((v.bit_length() + 8) // 8 + 7) // 8 * 8)
        body = v.to_bytes(n, 'big', signed=True)
    elif typ in (ENUM, INTERVAL):
        body = _s.pack('!I', v)
    elif typ == BOOL:
        body = _s.pack('!Q', 1 if v else 0)
    elif typ == TEXT:
        # (lone surrogates stand for raw bytes: text that is not UTF-8)
        body = v.encode('utf-8', 'surrogateescape')
    else:
        body = bytes(v)
    head = bytes([(tag >> 16) & 0xff, (tag >> 8) & 0xff, tag & 0xff, typ])
    head += _s.pack('!I', len(body))
    return head + body + b'\x00' * ((8 - len(body) % 8) % 8)


def S(tag, *children):
    return Node(tag, STRUCT, [c for c in children if c is not None])


def I(tag, v):
    return Node(tag, INTEGER, v)


def E(tag, v):
    return Node(tag, ENUM, v)


def T(tag, v):
    return Node(tag, TEXT, v)


def B(tag, v):
    return Node(tag, BYTES, v)


def D(tag, v):
    return Node(tag, DATETIME, v)


def L(tag, v):
    return Node(tag, LONG, v)


def BOOLEAN(tag, v):
    return Node(tag, BOOL, v)


# ---------------------------------------------------------------------------
# Tag numbers used by the harness, from the KMIP specification tag table.
# (cross-checked against kmip.core.enums.Tags by selftest, never imported)
TAG = dict(
    ACTIVATION_DATE=0x420001, APPLICATION_DATA=0x420002,
    APPLICATION_NAMESPACE=0x420003,
    APPLICATION_SPECIFIC_INFORMATION=0x420004,
    ASYNCHRONOUS_CORRELATION_VALUE=0x420006, ASYNCHRONOUS_INDICATOR=0x420007,
    ATTRIBUTE=0x420008, ATTRIBUTE_INDEX=0x420009, ATTRIBUTE_NAME=0x42000A,
    ATTRIBUTE_VALUE=0x42000B, AUTHENTICATION=0x42000C, BATCH_COUNT=0x42000D,
    BATCH_ERROR_CONTINUATION_OPTION=0x42000E, BATCH_ITEM=0x42000F,
    BATCH_ORDER_OPTION=0x420010, BLOCK_CIPHER_MODE=0x420011,
    CERTIFICATE=0x420013, CERTIFICATE_TYPE=0x42001D,
    CERTIFICATE_VALUE=0x42001E, COMMON_TEMPLATE_ATTRIBUTE=0x42001F,
    COMPROMISE_OCCURRENCE_DATE=0x420021, CREDENTIAL=0x420023,
    CREDENTIAL_TYPE=0x420024, CREDENTIAL_VALUE=0x420025,
    CRYPTOGRAPHIC_ALGORITHM=0x420028, CRYPTOGRAPHIC_LENGTH=0x42002A,
    CRYPTOGRAPHIC_PARAMETERS=0x42002B, CRYPTOGRAPHIC_USAGE_MASK=0x42002C,
    DERIVATION_DATA=0x420030, DERIVATION_METHOD=0x420031,
    DERIVATION_PARAMETERS=0x420032, ENCRYPTION_KEY_INFORMATION=0x420036,
    HASHING_ALGORITHM=0x420038, INITIAL_DATE=0x420039,
    INITIALIZATION_VECTOR=0x42003A, ITERATION_COUNT=0x42003C,
    IV_COUNTER_NONCE=0x42003D, KEY_BLOCK=0x420040,
    KEY_COMPRESSION_TYPE=0x420041, KEY_FORMAT_TYPE=0x420042,
    KEY_MATERIAL=0x420043, KEY_PART_IDENTIFIER=0x420044, KEY_VALUE=0x420045,
    KEY_WRAPPING_DATA=0x420046, KEY_WRAPPING_SPECIFICATION=0x420047,
    MAC_SIGNATURE=0x42004D, MAC_SIGNATURE_KEY_INFORMATION=0x42004E,
    MAXIMUM_ITEMS=0x42004F, MAXIMUM_RESPONSE_SIZE=0x420050,
    NAME=0x420053, NAME_TYPE=0x420054, NAME_VALUE=0x420055,
    OBJECT_GROUP=0x420056, OBJECT_TYPE=0x420057, OPAQUE_DATA_TYPE=0x420059,
    OPAQUE_DATA_VALUE=0x42005A, OPAQUE_OBJECT=0x42005B, OPERATION=0x42005C,
    OPERATION_POLICY_NAME=0x42005D, PADDING_METHOD=0x42005F,
    PRIME_FIELD_SIZE=0x420062, PRIVATE_KEY=0x420064,
    PRIVATE_KEY_TEMPLATE_ATTRIBUTE=0x420065,
    PRIVATE_KEY_UNIQUE_IDENTIFIER=0x420066, PROTOCOL_VERSION=0x420069,
    PROTOCOL_VERSION_MAJOR=0x42006A, PROTOCOL_VERSION_MINOR=0x42006B,
    PUBLIC_KEY=0x42006D, PUBLIC_KEY_TEMPLATE_ATTRIBUTE=0x42006E,
    PUBLIC_KEY_UNIQUE_IDENTIFIER=0x42006F, QUERY_FUNCTION=0x420074,
    REQUEST_HEADER=0x420077, REQUEST_MESSAGE=0x420078,
    REQUEST_PAYLOAD=0x420079, RESPONSE_HEADER=0x42007A,
    RESPONSE_MESSAGE=0x42007B, RESPONSE_PAYLOAD=0x42007C,
    RESULT_MESSAGE=0x42007D, RESULT_REASON=0x42007E, RESULT_STATUS=0x42007F,
    REVOCATION_MESSAGE=0x420080, REVOCATION_REASON=0x420081,
    REVOCATION_REASON_CODE=0x420082, SALT=0x420084, SECRET_DATA=0x420085,
    SECRET_DATA_TYPE=0x420086, SERVER_INFORMATION=0x420088,
    SPLIT_KEY=0x420089, SPLIT_KEY_METHOD=0x42008A, SPLIT_KEY_PARTS=0x42008B,
    SPLIT_KEY_THRESHOLD=0x42008C, STATE=0x42008D, STORAGE_STATUS_MASK=0x42008E,
    SYMMETRIC_KEY=0x42008F, TEMPLATE_ATTRIBUTE=0x420091, TIME_STAMP=0x420092,
    UNIQUE_BATCH_ITEM_ID=0x420093, UNIQUE_IDENTIFIER=0x420094,
    USERNAME=0x420099, VENDOR_IDENTIFICATION=0x42009D,
    WRAPPING_METHOD=0x42009E, PASSWORD=0x4200A1,
    # 1.1
    ENCODING_OPTION=0x4200A3,
    # 1.2
    ATTESTATION_CAPABLE_INDICATOR=0x4200D3, DATA=0x4200C2,
    SIGNATURE_DATA=0x4200C3, DATA_LENGTH=0x4200C4, MAC_DATA=0x4200C6,
    VALIDITY_INDICATOR=0x42009B,
    OFFSET_ITEMS=0x4200D4, LOCATED_ITEMS=0x4200D5,
    DIGITAL_SIGNATURE_ALGORITHM=0x4200AE,
    # 1.4
    KEY_WRAP_TYPE=0x4200F8, SENSITIVE=0x420120,
    AUTHENTICATED_ENCRYPTION_ADDITIONAL_DATA=0x4200FE,
    AUTHENTICATED_ENCRYPTION_TAG=0x4200FF,
    # 2.0
    ATTRIBUTES=0x420125, COMMON_ATTRIBUTES=0x420126,
    PRIVATE_KEY_ATTRIBUTES=0x420127, PUBLIC_KEY_ATTRIBUTES=0x420128,
    ATTRIBUTE_REFERENCE=0x42013B, CURRENT_ATTRIBUTE=0x42013C,
    NEW_ATTRIBUTE=0x42013D, PROTECTION_STORAGE_MASKS=0x42015F,
)
TAG_NAME = dict((v, k) for k, v in TAG.items())

# enumerations (spec values)
RESULT_STATUS = {0: 'Success', 1: 'OperationFailed', 2: 'OperationPending',
                 3: 'OperationUndone'}
RESULT_REASON = {
    1: 'ItemNotFound', 2: 'ResponseTooLarge', 3: 'AuthenticationNotSuccessful',
    4: 'InvalidMessage', 5: 'OperationNotSupported', 6: 'MissingData',
    7: 'InvalidField', 8: 'FeatureNotSupported',
    9: 'OperationCanceledByRequester', 10: 'CryptographicFailure',
    11: 'IllegalOperation', 12: 'PermissionDenied', 13: 'ObjectArchived',
    14: 'IndexOutOfBounds', 15: 'ApplicationNamespaceNotSupported',
    16: 'KeyFormatTypeNotSupported', 17: 'KeyCompressionTypeNotSupported',
    18: 'EncodingOptionError', 19: 'KeyValueNotPresent',
    20: 'AttestationRequired', 21: 'AttestationFailed', 22: 'Sensitive',
    23: 'NotExtractable', 24: 'ObjectAlreadyExists', 0x100: 'GeneralFailure',
    # KMIP 2.0 additions (0x19 .. 0x4B)
    0x19: 'InvalidTicket', 0x1A: 'UsageLimitExceeded', 0x1B: 'NumericRange',
    0x1C: 'InvalidDataType', 0x1D: 'ReadOnlyAttribute',
    0x1E: 'MultiValuedAttribute', 0x1F: 'UnsupportedAttribute',
    0x20: 'AttributeInstanceNotFound', 0x21: 'AttributeNotFound',
    0x22: 'AttributeReadOnly', 0x23: 'AttributeSingleValued',
}
for _v in range(0x24, 0x4C):
    RESULT_REASON.setdefault(_v, 'Kmip20Reason%02X' % _v)
REASON = dict((v, k) for k, v in RESULT_REASON.items())
OPERATION = {
    1: 'Create', 2: 'CreateKeyPair', 3: 'Register', 4: 'Rekey', 5: 'DeriveKey',
    6: 'Certify', 7: 'Recertify', 8: 'Locate', 9: 'Check', 10: 'Get',
    11: 'GetAttributes', 12: 'GetAttributeList', 13: 'AddAttribute',
    14: 'ModifyAttribute', 15: 'DeleteAttribute', 16: 'ObtainLease',
    17: 'GetUsageAllocation', 18: 'Activate', 19: 'Revoke', 20: 'Destroy',
    21: 'Archive', 22: 'Recover', 23: 'Validate', 24: 'Query', 25: 'Cancel',
    26: 'Poll', 27: 'Notify', 28: 'Put', 29: 'RekeyKeyPair',
    30: 'DiscoverVersions', 31: 'Encrypt', 32: 'Decrypt', 33: 'Sign',
    34: 'SignatureVerify', 35: 'MAC', 36: 'MACVerify', 37: 'RNGRetrieve',
    38: 'RNGSeed', 39: 'Hash', 40: 'CreateSplitKey', 41: 'JoinSplitKey',
    42: 'Import', 43: 'Export', 44: 'Log', 45: 'Login', 46: 'Logout',
    47: 'DelegatedLogin', 48: 'AdjustAttribute', 49: 'SetAttribute',
    50: 'SetEndpointRole', 51: 'PKCS11', 52: 'Interop', 53: 'ReProvision',
}
OP = dict((v, k) for k, v in OPERATION.items())
OBJECT_TYPE = {1: 'Certificate', 2: 'SymmetricKey', 3: 'PublicKey',
               4: 'PrivateKey', 5: 'SplitKey', 6: 'Template',
               7: 'SecretData', 8: 'OpaqueData', 9: 'PGPKey',
               10: 'CertificateRequest'}
OT = dict((v, k) for k, v in OBJECT_TYPE.items())
STATE = {1: 'PreActive', 2: 'Active', 3: 'Deactivated', 4: 'Compromised',
         5: 'Destroyed', 6: 'DestroyedCompromised'}
