"""
The threaded world: real KmipSession.run() loops in real threads sharing
one real KmipEngine, under the deterministic scheduler of sim/sched.py. The
engine's own `threading.RLock()` call yields a SimRLock, so whatever lock
the engine creates and uses is the simulated one.
"""
import copy

from sim import kernel, reqs, sched, world


class ThreadedWorld(world.World):
    def __init__(self, actors, scripts, preempts=None, tiebreaks=None,
                 user_policies=None, seed=0, step_cap=400000,
                 release_yields=None, **kw):
        import kmip.services.server.engine as eng
        self._eng_mod = eng
        self._real_threading = eng.threading
        self.tmod = sched.ThreadingModule()
        eng.threading = self.tmod
        self.scripts = scripts      # per actor: list of requests
        self.cursor = [0] * len(actors)
        self.history = []           # per request: dict(actor, idx, frame,..)
        self.open_req = {}
        world.World.__init__(self, actors, user_policies, seed=seed, **kw)
        self.sched = sched.Scheduler(preempts, tiebreaks, clock=self.clock,
                                     step_cap=step_cap,
                                     release_yields=release_yields)
        sched.SimRLock.sched = self.sched
        self.clock.sleeper = self.sched.sleep

    def start_engine(self):
        world.World.start_engine(self)
        self._install_busy_timeout()

    def _install_busy_timeout(self):
        import sqlalchemy

        @sqlalchemy.event.listens_for(self.engine._data_store, 'connect')
        def _on_connect(dbapi_con, rec):
            # a parked writer must make a second writer fail at once
            # instead of sleeping 5 real seconds inside SQLite
            cur = dbapi_con.cursor()
            cur.execute('PRAGMA busy_timeout=0')
            cur.close()
        self.engine._data_store.dispose()

    def close(self):
        sched.SimRLock.sched = None
        self._eng_mod.threading = self._real_threading
        world.World.close(self)

    # ------------------------------------------------------------------
    def _feed_next(self, ai, conn):
        i = self.cursor[ai]
        script = self.scripts[ai]
        if i >= len(script):
            conn.eof = True
            return
        self.cursor[ai] = i + 1
        req = copy.deepcopy(script[i])
        req['actor'] = ai
        frame = reqs.build_request(req, self.resolve, now=self.clock.now)
        if req.get('mut'):
            from sim import mutate, monitors
            try:
                bad = mutate.apply(frame, req['mut'])
                fr, left = monitors.split_frames(bad)
                # keep the stream framed: exactly one complete frame
                if len(fr) == 1 and not left:
                    frame = bad
            except Exception:
                pass
        seq = self.sched.event('invoke', actor=ai, idx=i)
        h = {'actor': ai, 'idx': i, 'req': req, 'frame': frame,
             'invoke': seq, 'ret': None, 'sent': None}
        self.history.append(h)
        self.open_req[ai] = h
        conn.feed(frame, req.get('chunks'))

    def _on_send(self, ai, conn, data):
        h = self.open_req.pop(ai, None)
        seq = self.sched.event('return', actor=ai,
                               idx=None if h is None else h['idx'])
        if h is None:
            self.history.append({'actor': ai, 'idx': None, 'req': None,
                                 'frame': None, 'invoke': None, 'ret': seq,
                                 'sent': data, 'unsolicited': True})
            return
        h['ret'] = seq
        h['sent'] = data
        try:
            resp = reqs.Response(data)
            h['resp'] = resp
            self._learn_labels(h['req'], resp)
        except Exception as e:
            h['parse_error'] = '%s: %s' % (type(e).__name__, e)

    def run(self, wall_timeout=120):
        for ai in range(len(self.actors)):
            s, conn = self.session(ai)
            conn.on_empty = (lambda c, ai=ai: self._feed_next(ai, c))
            conn.on_send = (lambda c, data, ai=ai: self._on_send(ai, c, data))
            self.sched.spawn('s%d' % ai, s.run)
        self.sched.run(wall_timeout)
        return self.history
